"""Regenerates MANIFEST.json from the table below (python3 tools/manifest.py)."""
import json
import os

HERE = os.path.dirname(os.path.dirname(os.path.abspath(__file__)))
ids = [json.loads(l)["id"] for l in open(os.path.join(HERE, "properties.jsonl"))]

TB = ("Trusted base: CPython ast; the pyvc interpreter (cross-checked against CPython, section 4.1); the library "
      "contracts for jnp/np/jax/optax listed in the evidence file (axioms, section 4.3); z3 5.1 with cvc5 1.0.3 / z3 4.8 as "
      "second opinion on `unknown`; floats are mathematical reals unless stated.")

CHECKS = {
    "C06": dict(
        text=("Contracts on the real merge_small_dims (loop invariant at symbolic rank), BlockPartitioner.__init__ "
              "(rank 0..5, symbolic dims/block size/number of blocks), Preconditioner shape/slot bookkeeping, "
              "tearfree reshaper _derive_shapes and the merge/unmerge round trip, tearfree shampoo _blocks_metadata and the "
              "_blockify/_deblockify round trip (every placement of <=2 large axes, rank<=5), all for symbolic dimensions; partition order = "
              "itertools.product order = announced shapes and merge_partitions puts block k into box k (concrete block counts, symbolic dims); "
              "identity preconditioners return the gradient unchanged entry by entry (rank 1..4, blocks, 3 preconditioner types, small concrete shapes): "
              "VCs generated from the AST of /repo on every run and discharged by z3/cvc5. Round trips are proved pointwise at a "
              "Skolem index. The partition/merge_partitions round trip for a symbolic number of blocks is not proved; the thorough "
              "tier runs a labelled bounded native enumeration for it."),
        design="7/C06",
        note=TB + " Reshape is modelled by the row-major flat-view axiom with solver-checked mixed-radix rewriting; "
        "Lean-cited lemmas: product of all-ones list, sum of a constant list, mixed-radix bound.",
        technique="contract-based deductive verification: AST->VC symbolic execution of the real functions with loop invariants, z3/cvc5",
    ),
    "C13": dict(
        text=("Index bookkeeping of the data-parallel preconditioner computation proved on the real code: the six "
              "`to_pad = -N % D` statements for symbolic N, D; batch() for symbolic device count / per-device batch / element "
              "shape (comprehension map rule); unbatch() for b1,b2 in 1..3 with symbolic element dims (keeps the element shape "
              "also when a dim is 1); and, under pmap axioms (psum=D, axis_index=r, all_gather), the post-condition of the real "
              "_pmap_compute_preconditioners that slot k holds gate(prev[k], Root(stat[k], exponent[k], size[k])) - an expression "
              "that does not mention D - for an enumerated (N,D) grid with symbolic matrices of per-statistic symbolic sizes, one or several "
              "statistics per parameter, with reuse_preconditioner (the root routine is a function of the previous preconditioner of THAT statistic) and "
              "with training metrics off, plus the frame obligation that slot k reads statistic k and preconditioner k only (no arithmetic on "
              "another replica's data, even with a zero coefficient); the selection block of sharded_update_fn stores gate(old k, new k, error k) for "
              "every real statistic for any (N, D), to_pad = 0 included. Not a multi-device execution."),
        design="7/C13",
        note=TB + " pmap collectives are axioms; the inverse-root routine enters as an uninterpreted function of "
        "(matrix named by its generic entry, exponent, padding).",
        technique="contract-based deductive verification: AST->VC symbolic execution of the real functions under pmap axioms, z3",
    ),
    "C10": dict(
        text=("Contracts on the real _fd_low_rank_pack/_fd_low_rank_unpack/_low_rank_pack/_low_rank_unpack (round trip of all six "
              "fields pointwise for symbolic d, r with |r|+2<d, both signs; the internal asserts hold exactly under that "
              "precondition and reject outside it), _precond_dim <=> _should_compress, the index selection of _low_rank_root "
              "(kept columns are the |r| largest / smallest-unpadded eigh columns; retained and averaged root values are max(lambda, ridge)^(-1/p) "
              "for whatever eigenvalues eigh returns, the constant is their sum over the unpadded dimension minus |r|; symbolic d, r, padding), "
              "the flagged (has_zeros) application returns the gradient bit for bit for all float32 contents incl. inf/NaN, and the compressed "
              "branch of Preconditioner._precondition_block against the dense matrix c(I-VV')+V diag(e) V' as a polynomial "
              "identity with every tensor entry symbolic at small concrete sizes (d=4, r=+-1, gradient rank 1..3)."),
        design="7/C10",
        note=TB + " eigh enters as an opaque sorted decomposition; the dense-equivalence obligations fix the dimensions to "
        "small constants (entries symbolic) and are discharged by monomial normalisation.",
        technique="contract-based deductive verification: AST->VC symbolic execution of the real functions, z3 (incl. polynomial normalisation)",
    ),
    "C17": dict(
        text=("The real per-group body of create_redist_dict (rd, is_outlier, grp_info, the proportional loop, the code's own "
              "assertions, the leftover loop) is executed for an arbitrary group of a SYMBOLIC number of groups (loop contract on the loop over "
              "groups; a loop-carried variable the contract does not havoc makes the run undecided) - size n, dimension, base rank and all scores "
              "symbolic - with two loop invariants over a finite map with a ghost Sum; post: every key gets an integer rank in "
              "[1, dim] and the group sum is at most n * rank. Scores and every float expression are opaque reals (rd() "
              "returns some integer), so the proof does not depend on a float model. create_groups is checked on small "
              "instances with symbolic dims."),
        design="7/C17",
        note=TB + " I/O, string and jnp bookkeeping helpers (layers_and_axes, create_groups, score_fn, create_redist, alloc_fn) "
        "are replaced by contracts; Sum over a finite map obeys the store axioms; sorted() returns the input in key order w.l.o.g.",
        technique="contract-based deductive verification: AST->VC symbolic execution with loop invariants and ghost Sum, z3",
    ),
    "C12": dict(
        text=("State invariant with ghost state proved for one call of the real sm3 update_fn (with the real _moving_averages, "
              "_sketch_diagonal_statistics, _get_expanded_shape, init_fn), rank 1..4, symbolic dims/entries/hyper-parameters, "
              "real arithmetic: Inv = (acc_i[x_i] >= nu[x] >= T[x] >= 0 for every coordinate and axis, each accumulator entry "
              "attained by nu) is established by init and preserved by update, hence min_i acc_i >= exact decayed sum of squares "
              "after any history; accumulators never decrease for beta2 = 1; rank 1 coincides with diagonal AdaGrad/RMSProp; "
              "the step (beta1=0) is bounded by the diagonal method's step; the same on the normalised gradient with normalize_grads; the accumulators "
              "are float32 whatever the parameter dtype. Proved pointwise at Skolem coordinates with "
              "engine-instantiated max/min facts (quantifier-free)."),
        design="7/C12",
        note=TB + " jnp.max over axes is axiomatised by bound + witness facts; int8 momentum quantisation is executed in real mode "
        "(round = floor(x+1/2)) and plays no role in the claim.",
        technique="contract-based deductive verification: ghost-state invariant over one update call, AST->VC, z3 (QF_NRA+UF)",
    ),
    "C02": dict(
        text=("The real _transform_grad closure is verified against a spec function written from the argument documentation "
              "(graft step per type, lr coupling, norm transplant, coupled/decoupled weight decay, momentum with 1-beta1 iff "
              "moving-average, Nesterov, learning rate) for all 672 discrete configurations with every numeric hyper-parameter, "
              "dimension and tensor entry symbolic (pointwise at a Skolem index; each norm is shown to range over the right "
              "tensor); _compute_stats/gram_weighted_update weights and contraction axes incl. the statistics interval; dense "
              "preconditioner application along each axis for 3 preconditioner types as a polynomial identity at small sizes; "
              "phase order of update_fn; the exponent handed to the root routine (2 x #preconditioned axes or the override, rank 1..4 x 3 types; each "
              "statistic its own parameter's exponent when a companion parameter is present); "
              "which parameters are preconditioned at all (skip thresholds on the parameter's own shape); both refresh intervals are symbolic in every "
              "_transform_grad task and the refresh cadence of _pmap_compute_preconditioners (shared with C04) is part of the check. preconditioned_grad and the roots enter through contracts. End-to-end float agreement "
              "is not a proof obligation (bounded native reference in the thorough tier)."),
        design="7/C02",
        note=TB + " Norms are uninterpreted reductions with bound/zero facts; preconditioned_grad is an opaque tensor of the gradient's shape.",
        technique="contract-based deductive verification: real closure vs spec function, AST->VC, z3 (case analysis + polynomial normalisation, QF_NRA)",
    ),
    "C05": dict(
        text=("Grafting identities proved on the real code for all inputs: Distributed Shampoo _transform_grad with momentum and "
              "weight decay off (7 graft types x lr coupling x schedule x skipped/not, pg opaque so every preconditioner "
              "representation and shape is covered): update*(|pg|+eps) = -lr*pg*|graft| from the start step on, zero when pg is "
              "zero, the graft step before it and (up to eps) always for skipped parameters; Tearfree graft/_graft_with/"
              "_mask_skipped/_rmsprop/_sgd: out*|base| = base*|graft|, zero for zero base, graft step during warm-up and for "
              "masked parameters, RMSProp accumulator closed form."),
        design="7/C05",
        note=TB + " Euclidean norm axioms: non-negative, |x_i| <= |x|, |x| = 0 => x = 0; homogeneity is cited, not used.",
        technique="contract-based deductive verification: AST->VC symbolic execution of the real closures, z3",
    ),
    "C16": dict(
        text=("One call of each real update function as a transition contract (closed forms over a history follow by induction "
              "on the call): OGD and diagonal AdaGrad init/update for symbolic dimension; the four sketched methods for symbolic "
              "dimension and sketch size: the decomposed matrix is [P[r]*e[r] ; per-algorithm-scaled gradient in the LAST row], "
              "e'^2 = (s-rho)(s+rho) >= 0 with e'[-1] = 0, alpha' = alpha + f*rho^2 with f = 1 / 1/2 / 0 / 0; the update formula "
              "P'(inv_s o P g) + inv_alpha (g - P'P g) (Ada-FD: its own form) with safe inversion as a polynomial identity at size "
              "(2,3) with symbolic entries; generate_init_update binds the hyper-parameters it is given (two bindings in one process). "
              "svd is an opaque sorted decomposition."),
        design="7/C16",
        note=TB + " Real arithmetic: rsqrt(0) and inf*0 are not modelled (a float-only difference would not be seen).",
        technique="contract-based deductive verification: transition contract of one update call, AST->VC, z3",
    ),
    "C09": dict(
        text=("Per-step algebraic contract that the frequent-directions theorem needs, proved on the real "
              "distributed_shampoo._fd_update_root (symbolic size, rank, padding, decay, exponent) and tearfree.sketchy._update_axis "
              "(tensor rank 1..3, every axis, k<d and k=d): escaped mass t' = b*t + s[k]^2; retained eigenvalues in "
              "{0,(s_i-c)(s_i+c)} and >= 0; dropped columns exactly zero; stored inverse roots (s_i^2 + b*t [+eps])^(-1/p) where "
              "kept / 0 where dropped, inv_tail, and the identity s_i^2 + b*t = l'_i + t' the code relies on; the decomposed "
              "matrix is [sqrt(b) V diag(sqrt l) ; G] where the rows of G are the mode-axis fibres of the gradient (any enumeration order); the whole "
              "Sketchy _update on a statistics step updates every axis for every gradient; frequent_directions_update returns the QR factor of the "
              "transposed unfolding (a Cholesky of the Gram matrix would leave the run undecided: positive definiteness is not established). SVD/QR outputs are opaque (s descending, >= 0). The OCO sketches are "
              "covered by C16. The PSD bracket itself is the cited FD theorem, not proved."),
        design="7/C09",
        note=TB + " svd: singular values sorted and non-negative; qr(mode='r') opaque; real powers uninterpreted (rpow) with sign facts.",
        technique="contract-based deductive verification: per-step recurrences as postconditions, AST->VC, z3",
    ),
    "C14": dict(
        text=("'Nothing needed to continue lives outside the state pytree' as frame conditions: one syntactic frame obligation "
              "per function of the 12 optimizer modules (no global/nonlocal, no store into module-global or closure-captured "
              "objects, parameters written only per the sidecar assigns clauses, no process-global randomness/time/environment), "
              "plus the alias rule by symbolic execution of the real update entry points (Distributed Shampoo update_fn, SM3, "
              "Tearfree Shampoo / Sketchy / grafting / momentum) with every state leaf tagged as a caller-owned NumPy array: no "
              "augmented assignment reaches a leaf or a view of it, and no lax.cond / lax.while_loop body computes on a state leaf it merely "
              "captured (closure-capture rule: such a leaf is a compile-time constant after a restore), for the whole C07 option grid with "
              "intervals > 1; a float64 NumPy value (np.* applied to python scalars) must not be combined with a float32 state leaf (NumPy would "
              "compute in float64 on a restored state); module-level stateful objects (generators seeded at import ...) must not be used inside functions. The actual "
              "serialization and remaining compile-level effects are reached only by the labelled bounded native resume harness (15 optimizer "
              "modes x interruption points), which runs in both tiers and is not counted as proved."),
        design="7/C14",
        note=TB + " The frame checker is syntactic and conservative; NumPy aliasing semantics (in-place augmented assignment, "
        "views from basic indexing, jnp results fresh) are modelled; flax serialization and XLA determinism are assumed.",
        technique="contract-based deductive verification: frame obligations (syntactic checker + symbolic alias execution); bounded native resume harness as stand-in",
    ),
    "C03": dict(
        text=("The acceptance gate is verified bit-precisely (z3 FloatingPoint float32, round-nearest-even, XLA-CPU flush-to-zero "
              "modelled) on the real nested _skip/_select_preconditioner closures of the pmap, quantized-pmap and pjit paths "
              "(free variable inverse_failure_threshold bound to an arbitrary non-NaN float32) and on the selection statements of "
              "sharded_update_fn extracted mechanically: for all 2^64 (error, threshold) pairs incl. NaN/Inf/-0/subnormals and "
              "arbitrary bit patterns of the old and new root, the stored value is bitwise old or bitwise new, and it differs from "
              "old only if error is not NaN and error < threshold; on non-refresh steps (error = threshold) the old root is kept "
              "(pins >=), and through the real _pmap_compute_preconditioners a step that does not recompute roots keeps every preconditioner for "
              "ANY real threshold (the placeholder error is rejected by the gate); an accepted eigh root is defined (positive power base "
              "whatever eigh returns). Loop-free over the full domain: a complete proof of the gate. Slot bookkeeping is C13-P3; range analysis "
              "of the root routines (finiteness of the update) is not claimed."),
        design="7/C03",
        note=TB + " Float model: SMT-LIB FloatingPoint with one NaN; FTZ/DAZ applied to operands and results; lax.cond = select with both branches traced.",
        technique="contract-based deductive verification: bit-precise QF_FP postconditions on the real closures / extracted statements, z3",
    ),
    "C04": dict(
        text=("Transition contract of one update with the step counter symbolic (so every step index of every history is covered): "
              "the real _compute_stats keeps the statistics objects unless count % statistics_compute_steps = 0; the real "
              "_pmap_compute_preconditioners (symbolic interval >= 2, and interval 1; root routine as a contract) keeps every "
              "preconditioner and the diagnostics unless count % interval = 0 and otherwise stores gate(prev, Root(statistics')); "
              "the same under a SCHEDULED interval (configured 1 or symbolic, the interval in force being the schedule's value) and for any "
              "failure threshold; _update_preconditioners_fn dispatch, efficient_cond, the scheduled interval (>= 1, 1 or a multiple of 10), count+1 and "
              "phase order of update_fn; Tearfree Shampoo/Sketchy _update keep blocks/sketches on non-refresh steps, refresh the roots on "
              "every multiple of the preconditioner interval from the eigh of the current statistics, and advance count by one; the warm-up boundary "
              "(graft update before the start step, preconditioned from it on) on the real _transform_grad with step, start and both intervals symbolic. Warm-up boundary: C02-P1 / C05-P2. sharded_update_fn as a whole is not executed."),
        design="7/C04",
        note=TB + " Bit-identity on non-refresh steps is object identity / pointwise equality in the VC; lax.cond/while_loop per section 4.3.",
        technique="contract-based deductive verification: transition contract with symbolic step counter, AST->VC, z3",
    ),
    "C08": dict(
        text=("Block locality as a relational frame condition, decided by a reads analysis of the symbolic terms produced by "
              "executing the real code (reductions, contractions and batched eigh expanded through their operands): for Tearfree "
              "Shampoo's _update_block_stats, _pth_inv_root/_update_block_precond, _precondition_blocks and the whole _update "
              "(6 placements of large axes, symbolic number of blocks) every output of block b0 reads gradient, statistics and "
              "roots of block b0 only, and the einsum contracts axis a with root a; for Distributed Shampoo (2 blocks, symbolic "
              "dims) statistic k reads the gradient inside block k//n only and block i is preconditioned by roots [i*n,(i+1)*n) and "
              "its own gradient only; the acceptance gate is per statistic (slot k = gate(prev k, root k, error k) whatever the other blocks of "
              "the tensor do); blocks are merged back into their own boxes for two blocked axes with different block counts; the power iteration of a "
              "padded statistic starts from a vector that vanishes on the padding. Two runs agreeing on a block's reads agree on its outputs."),
        design="7/C08",
        note=TB + " Reads analysis (pyvc/deps.py): a term's value is a function of its reads; batched eigh is block-local (library contract).",
        technique="contract-based deductive verification: relational frame condition via dependency (reads) analysis of AST->term symbolic execution, z3",
    ),
    "C11": dict(
        text=("The real QuantizedValue.quantize / to_float / from_float_value executed pointwise in bit-precise float32 (z3 "
              "FloatingPoint, RNE, flush-to-zero): for every finite column of a rank 1..3 tensor, int8 and int16: the stored integer "
              "never wraps (decomposed: one-variable lemma |y|<=N+1/4 => |rint(y)|<=N; |x_w/bucket|<=N+1/4 at the row attaining the "
              "column maximum - bit-precise for int8, and for int16 under the standard rounding model plus an exhaustive "
              "enumeration of all 2.1e9 float32 values on the real code in every run; monotonicity of IEEE division as a library "
              "axiom), zeros are reproduced exactly, the extracted diagonal is stored and returned bit-for-bit; the half-bucket "
              "bound under the standard rounding model, with and without extract_diagonal; idempotence of the integers is NOT proved (bounded native check only). Known finding: "
              "overflow to inf within one rounding of FLT_MAX."),
        design="7/C11",
        note=TB + " Float model as in C03; astype(int) of an integral in-range float is exact; IEEE division is monotone in |dividend|; "
        "the int16 maximising-row bound is an explicit assumption of the bit-precise chain backed by the rounding-model proof and the exhaustive enumeration.",
        technique="contract-based deductive verification: bit-precise QF_FP postconditions of the real code (z3), real-arithmetic rounding-model lemma; exhaustive native enumeration of one single-variable lemma as labelled stand-in",
    ),
    "C15": dict(
        text=("The real tearfree()/praxis_shim.sharded_chain/second_order.apply/grafting.graft/momentum.apply are executed for 80 "
              "option combinations (ema, Nesterov, weight decay on/off and before/after the momentum, momentum on/off, constant or "
              "scheduled lr, grafting NONE/SGD) with the second-order step as a contract: the update equals "
              "-lr(t) * momentum(weight decay(graft(unmerge(PG)))) pointwise (hence exactly linear in lr), the trace buffer update, each "
              "transform receiving its own state slice, merge before and unmerge after the second-order step (a merged parameter); the graft stage "
              "and its skip rules for symbolic shapes incl. unit dimensions; Tearfree Shampoo roots follow the preconditioner schedule; Sketchy's per-axis "
              "root values (inv_eig, inv_tail incl. tail = 0). "
              "Tearfree Shampoo statistics C' = beta C + (1-beta) G G' and roots V diag(h^2) V', h = lambda^(-1/(2*2*rank)), per-block "
              "1e-6 cut-off, and Sketchy's (inv_tail (I-VV') + V diag(inv_eig) V') application along every axis, as polynomial "
              "identities at small sizes with symbolic entries. Block-wise contraction of axis a with root a: C08."),
        design="7/C15",
        note=TB + " optax.trace / scale / scale_by_schedule / add_decayed_weights enter by their documented update formulas (library contracts); eigh opaque.",
        technique="contract-based deductive verification: composition post-condition on the real chain, AST->VC, z3 (case analysis + polynomial normalisation)",
    ),
    "C01": dict(
        text=("The real matrix_inverse_pth_root (Newton and eigh routes), mat_power and the nested loop bodies are executed for a "
              "symbolic matrix size n >= 1 (incl. the 1x1 branch), exponent p >= 1, relative/absolute ridge, padding None or "
              "symbolic, with loop invariants on the three lax.while_loops: every name read is bound and every internal assertion "
              "holds on every path; padding rows/columns of the Newton result are exactly zero (Pad invariant through mat_power, the "
              "inner iteration and the retry loop, proved pointwise with the 'non-zero sum has a non-zero term' contraction axiom); "
              "all-padding gives the zero matrix with error 0; and what is reported: error = max|M - I_masked| of the final tracked "
              "iterate (>= 0), the retry ridge ridge_epsilon*max(max_ev,1e-25)*10^i on the masked identity, the convergence blend. "
              "mat_power has the functional contract M^p (loop invariant over a spec power, symbolic p, 1x1); the error figure is honest: the real "
              "_iter_body/_outer_body_fn executed on commuting tokens preserve mat_m = mat_h^p (A+dI) and give |X^p (A+dI) - I| <= reported "
              "error for the returned iterate (exact arithmetic); power_iteration returns the Rayleigh quotient of the last normalised "
              "iterate unchanged (so, by the cited Rayleigh bound, never more than lambda_max); the eigh route never raises a "
              "non-positive base to the inverse power whatever eigh returns (ridge_epsilon >= 0) and decomposes the masked input plus ridge times the "
              "masked identity; on the LOBPCG route the reported figure is the residual of the returned matrix against the unconditioned input. Convergence, rounding slack, eigh padding zeros and LOBPCG "
              "are not claimed."),
        design="7/C01",
        note=TB + " eigh opaque; Rayleigh bound and the power identities (Lean lemmas/Spec.lean) cited; termination not proved.",
        technique="contract-based deductive verification: loop invariants on the real lax.while_loop bodies, AST->VC, z3",
    ),
    "C07": dict(
        text=("Named internal-error sites and layout equalities proved by symbolic execution of the real init_fn/update_fn in the "
              "tree-structure / shape / dtype view (root routine as a contract): for 15 option combinations (graft, intervals, "
              "block_size 1, int8 momenta, metrics off, skip thresholds, INPUT/OUTPUT preconditioners, eigh, compression, reuse, "
              "frequent directions +/- reuse / average_grad / reset / fd metrics with and without training metrics, all seven grafting types) x 7 parameter trees (ranks 0..3, unit dims) x 2 updates nothing "
              "but an explanatory rejection is raised, the update has the parameters' structure/shapes/dtype and the state layout is "
              "a fixed point; in sharded mode declared shapes/dtypes and partition specs describe the tree sharded_init_fn builds and "
              "every with_sharding_constraint argument has the spec's rank; lax.cond branch types agree for Tearfree Sketchy under "
              "jax_enable_x64; Tearfree / SM3 layouts (incl. Sketchy with ekfac_svd, and a Tearfree Shampoo accept-or-reject grid of shapes); shared shape-bookkeeping obligations of C06/C13. Whole-configuration-space "
              "exception freedom is not claimed."),
        design="7/C07",
        note=TB + " Assertions with a message ('all layers are too small for compression_rank') count as explanatory rejections; "
        "dtype promotion is modelled with weak python scalars; with_sharding_constraint requires rank(leaf) >= len(spec).",
        technique="contract-based deductive verification: assertion/definedness/layout obligations from AST->VC symbolic execution in the shape/dtype/tree view, z3",
    ),
}

NA_REASON = "check not built yet (build in progress); the planned contract kernel is described in DESIGN.md section 7"

m = {
    "version": 1,
    "setup_cmd": "./setup.sh",
    "hooks": {
        "guard": "GOOGLE_RESEARCH_PRECONDITION_VERIF",
        "enable": "no hooks: contracts are sidecar files under /verif/contracts keyed by module/qualified name/loop ordinal; /repo is re-read and parsed on every run and never instrumented",
        "baseline_off_cmd": "cd /repo && /venv/bin/python -m pytest -q -p no:cacheprovider --timeout=900 -n 12",
        "source_commits": [],
        "add_only": True,
    },
    "engines": [{
        "name": "pyvc",
        "path": "pyvc/",
        "serves_properties": sorted(CHECKS),
        "kind_free_text": "meta-circular symbolic interpreter over the real Python AST of /repo -> verification conditions -> z3 (cvc5 / z3-4.8 on unknown); native replay oracles under native/",
    }],
    "checks": [],
    "notes": "See DESIGN.md. Exit codes: 0 all obligations discharged; 1 VIOLATION; 2 undecided (solver unknown / contract target renamed); 3 engine error.",
    "not_applicable": [],
}
for pid in ids:
  if pid in CHECKS:
    c = CHECKS[pid]
    m["checks"].append({
        "property_id": pid,
        "quick_cmd": f"./verify {pid} --tier quick",
        "thorough_cmd": f"./verify {pid} --tier thorough",
        "evidence_file": f"evidence/{pid}.json",
        "replay_cmd_template": "./verify replay {path}",
        "engine": "pyvc",
        "level_claimed": {"category": "proof", "text": c["text"], "design_ref": c["design"]},
        "level_note": c["note"],
        "technique": c["technique"],
    })
  else:
    m["not_applicable"].append({"property_id": pid, "reason": NA_REASON})
json.dump(m, open(os.path.join(HERE, "MANIFEST.json"), "w"), indent=1)
print("checks:", [c["property_id"] for c in m["checks"]])
