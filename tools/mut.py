"""Runs one property's quick check under each in-memory source mutation of a JSON catalogue
[[module, old, new], ...] and prints which obligations fail (self-test of the contracts)."""
import json, os, subprocess, sys
pid, path = sys.argv[1], sys.argv[2]
pat = sys.argv[3] if len(sys.argv) > 3 else None
for mod, old, new in json.load(open(path)):
    env = dict(os.environ, PYVC_MUTATE=f"{mod}::{old}::{new}", PYVC_OBL_MS=os.environ.get("PYVC_OBL_MS", "5000"), PYVC_CVC5_S="3")
    p = subprocess.run(["./verify", pid], capture_output=True, text=True, env=env, cwd="/verif")
    lines = [l for l in p.stdout.splitlines() if l.startswith(("VIOLATION", "UNDECIDED", "ENGINE", pid))]
    v = sorted({l.split("replay_")[-1].replace(".json", "")[:110] for l in lines if l.startswith("VIOLATION")})
    print(f"== {mod.split('.')[-1]}: {old.strip()[:60]!r} -> {new.strip()[:40]!r}\n   exit={p.returncode} violations={len(v)} {v[:3]} {[l[:140] for l in lines if not l.startswith(('VIOLATION', pid))][:2]}")
