"""Debug helper: run tasks of one property whose name contains a pattern, serially, with timings."""
import sys, time, os
sys.path.insert(0,'/verif')
from pyvc import harness as H
import importlib
mod = importlib.import_module('contracts.'+sys.argv[1])
pat = sys.argv[2]
tier = sys.argv[3] if len(sys.argv)>3 else 'quick'
ts = [t for t in mod.tasks(tier) if pat in t.name]
H._OVERRIDES = H.env_overrides()
for t in ts:
    t0=time.time()
    H._TASKS=[t]; H._OUTDIR='/verif/out/dbg'; os.makedirs(H._OUTDIR,exist_ok=True)
    r = H._run_one(0)
    bad=[(o['name'],o['status'],round(o['secs'],2),o['backend']) for o in r['obligations'] if o['status']!='unsat' or o['secs']>2]
    print(t.name, 'paths',r['paths'],'obl',len(r['obligations']),'secs',round(time.time()-t0,1), 'err', (r['error'] or '')[-1500:], r['undecided'] or '', bad[:8], flush=True)
