#!/bin/bash
# tools/seed_eval.sh <seed-id> <worktree> <property> [other properties...]
# Confirms an independently produced property-breaking change and runs the registered checks against it.
set -u
ID=$1; WT=$2; shift 2; PIDS="$@"
D=/verif/seeded/$ID
mkdir -p $D
cp $WT/_out/patch.diff $D/patch.diff
cp $WT/_out/demo.py $D/demo.py
cp $WT/_out/notes.txt $D/notes.txt 2>/dev/null
# scratch worktree of the CURRENT /repo head for confirmation
S=/tmp/seedscratch_$ID
git -C /repo worktree remove --force $S 2>/dev/null
git -C /repo worktree add -q --detach $S HEAD
cd $S
PYTHONPATH=$S JAX_PLATFORMS=cpu timeout 900 /venv/bin/python $D/demo.py > $D/demo_original.log 2>&1; R0=$?
if ! git apply --check $D/patch.diff 2>/dev/null; then echo "PATCH DOES NOT APPLY to current /repo head" | tee $D/apply_error.txt; fi
git apply $D/patch.diff
PYTHONPATH=$S JAX_PLATFORMS=cpu timeout 900 /venv/bin/python $D/demo.py > $D/demo_changed.log 2>&1; R1=$?
PYTHONPATH=$S JAX_PLATFORMS=cpu timeout 1500 /venv/bin/python -m pytest -q -p no:cacheprovider -n 10 precondition > $D/suite_changed.log 2>&1
SUITE=$(tail -1 $D/suite_changed.log)
cd /verif
git -C /repo worktree remove --force $S
echo "demo original exit=$R0 ; demo changed exit=$R1 ; suite with change: $SUITE"
# run the checks against /repo with the change applied, then undo
git -C /repo apply $D/patch.diff
RES=""
for P in $PIDS; do
  PYVC_EVIDENCE_DIR=/verif/out/seeded_evidence timeout 1500 ./verify $P > $D/check_$P.log 2>&1; RC=$?
  RES="$RES $P:exit=$RC"
  grep -h "^VIOLATION\|^UNDECIDED\|^ENGINE" $D/check_$P.log | sed 's/replay=.*replay_/replay=/' | cut -c1-220 | head -6
done
git -C /repo checkout -- .
git -C /repo status --short | head -3
echo "RESULT $ID demo_original=$R0 demo_changed=$R1 suite='$SUITE' checks:$RES"
