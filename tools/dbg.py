"""Debug helper: run one task, print every non-unsat obligation with its detail and model."""
import sys, os
sys.path.insert(0, '/verif')
from pyvc import harness as H
import importlib
mod = importlib.import_module('contracts.' + sys.argv[1])
pat = sys.argv[2]
tier = sys.argv[3] if len(sys.argv) > 3 else 'quick'
ts = [t for t in mod.tasks(tier) if pat in t.name]
H._OVERRIDES = H.env_overrides()
for t in ts[:3]:
  H._TASKS = [t]; H._OUTDIR = '/verif/out/dbg'; os.makedirs(H._OUTDIR, exist_ok=True)
  r = H._run_one(0)
  print(t.name, r['paths'], r['error'])
  for o in r['obligations']:
    if o['status'] != 'unsat':
      print('  ', o['name'][:90], o['status'], '|', str(o.get('detail'))[:400], '|', str(o.get('model'))[:300])
