"""Self-test of the contracts: runs the quick check of a property under each in-memory source mutation of
selftest/catalogue.json (PYVC_MUTATE; /repo is not touched, evidence goes to out/mutant_evidence) and reports whether
the check reacts as expected: a property-breaking mutant must give exit 1 (VIOLATION) - exit 2/3 is recorded as
'undecided/engine' and counts as NOT caught; an entry marked expect=pass is an equivalent change and must give exit 0
(expect=pass-or-undecided: exit 0 or 2, never 1).   python3 tools/selftest.py [PROPERTY ...]"""
import json, os, subprocess, sys, time
HERE = os.path.dirname(os.path.dirname(os.path.abspath(__file__)))
cat = json.load(open(os.path.join(HERE, "selftest", "catalogue.json")))
want = set(sys.argv[1:])
bad = 0
rows = []
for e in cat:
  if want and e["property"] not in want:
    continue
  env = dict(os.environ, PYVC_MUTATE=f"{e['module']}::{e['old']}::{e['new']}")
  t0 = time.time()
  p = subprocess.run(["./verify", e["property"]], capture_output=True, text=True, env=env, cwd=HERE)
  viol = sorted({l.split("replay_")[-1].split(".json")[0][:90] for l in p.stdout.splitlines() if l.startswith("VIOLATION")})
  exp = e.get("expect", "violation")
  ok = (p.returncode == 1) if exp == "violation" else (p.returncode == 0 if exp == "pass" else p.returncode in (0, 2))
  bad += 0 if ok else 1
  rows.append(f"{'ok ' if ok else 'BAD'} {e['property']} exit={p.returncode} expect={exp} {time.time() - t0:5.0f}s  {e['what']}  {viol[:2]}")
  print(rows[-1], flush=True)
open(os.path.join(HERE, "selftest", "RESULTS.txt"), "w").write("\n".join(rows) + f"\n{len(rows)} mutants, {bad} unexpected\n")
sys.exit(1 if bad else 0)
