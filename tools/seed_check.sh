#!/bin/bash
# tools/seed_check.sh <seed-id> <property> [other properties...]
# Re-runs registered checks against an already confirmed seeded change (applies it to /repo, reverts afterwards).
set -u
ID=$1; shift; PIDS="$@"
D=/verif/seeded/$ID
cd /verif
if [ -n "$(git -C /repo status --short)" ]; then echo "/repo not clean"; exit 2; fi
git -C /repo apply $D/patch.diff || exit 2
RES=""
for P in $PIDS; do
  PYVC_EVIDENCE_DIR=/verif/out/seeded_evidence timeout 1500 ./verify $P > $D/check_$P.log 2>&1; RC=$?
  RES="$RES $P:exit=$RC"
  grep -h "^VIOLATION\|^UNDECIDED\|^ENGINE" $D/check_$P.log | sed 's/replay=.*replay_/replay=/' | cut -c1-220 | head -6
done
git -C /repo checkout -- .
git -C /repo status --short | head -3
echo "RECHECK $ID checks:$RES"
