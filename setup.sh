#!/bin/bash
# Offline setup: checks tools, byte-compiles the verifier, creates output dirs.
set -e
cd "$(dirname "$0")"
command -v python3-vt >/dev/null
python3-vt -c "import z3" 
mkdir -p out evidence
python3-vt -m compileall -q pyvc contracts >/dev/null 2>&1 || true
echo "setup ok"
