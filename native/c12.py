"""Native oracle for C12: SM3 accumulators vs. an exact float64 per-entry accumulator over a
random history; monotone accumulators for beta2 = 1; rank-1 equality.  Bounded (seeded)."""
import json
import os
import sys

import jax
jax.config.update("jax_enable_x64", True)
import jax.numpy as jnp
import numpy as np

from precondition import sm3

tier = sys.argv[1] if len(sys.argv) > 1 else "quick"
seed = int(os.environ.get("VERIF_SEED", "0"))
rng = np.random.RandomState(seed + 5)
viol, cases = [], 0


def add(inp, what):
  if len(viol) < 10:
    viol.append({"function": "sm3.update_fn", "input": inp, "what": what})


shapes = [(5,), (3, 4), (2, 3, 2), (2, 2, 3, 2)]
for shp in shapes:
  for beta2 in (1.0, 0.9, 0.5):
    cases += 1
    opt = sm3.sm3(0.1, beta1=0.0, beta2=beta2)
    p = jnp.zeros(shp, jnp.float64)
    st = opt.init(p)
    T = np.zeros(shp)
    w = 1.0 if beta2 == 1.0 else 1 - beta2
    prev = [np.asarray(a) for a in st.stats.diagonal_statistics]
    for step in range(6 if tier == "quick" else 20):
      g = rng.randn(*shp) * 10.0 ** rng.randint(-3, 3)
      if step == 2:
        g = np.zeros(shp)
      T = beta2 * T + w * g * g
      u, st = opt.update(jnp.asarray(g), st, p)
      accs = [np.asarray(a, np.float64) for a in st.stats.diagonal_statistics]
      mn = None
      for i, a in enumerate(accs):
        e = a.reshape([-1 if j == i else 1 for j in range(len(shp))])
        e = np.broadcast_to(e, shp)
        mn = e if mn is None else np.minimum(mn, e)
      if np.any(mn < T * (1 - 1e-5) - 1e-30):
        add([list(shp), beta2, step], f"min accumulator below the exact sum of squares by {float(np.max(T - mn))}")
      if beta2 == 1.0 and any(np.any(a < b * (1 - 1e-6)) for a, b in zip(accs, prev)):
        add([list(shp), beta2, step], "an accumulator decreased with beta2 = 1")
      if len(shp) == 1 and not np.allclose(accs[0], T, rtol=1e-5, atol=1e-30):
        add([list(shp), beta2, step], "rank-1 accumulator differs from diagonal AdaGrad/RMSProp")
      ref = np.abs(0.1 * g / np.sqrt(T + 1e-10))
      if np.any(np.abs(np.asarray(u)) > ref * (1 + 1e-4) + 1e-12):
        add([list(shp), beta2, step], "step larger than diagonal AdaGrad/RMSProp's")
      prev = accs

print(json.dumps({"cases": cases, "violations": viol,
                  "bound": f"tier={tier}: 4 shapes (rank 1..4) x beta2 in {{1,0.9,0.5}} x histories of 6/20 steps, seed {seed}"}))
