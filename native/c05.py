"""Native oracle for C05: grafting identities through the public APIs (bounded, seeded).
DS: momentum and weight decay off; update direction = preconditioned gradient's, norm = graft step's;
warm-up and skipped parameters get the graft step.  Tearfree: same through tearfree.grafting.graft."""
import json
import os
import sys

import jax
import jax.numpy as jnp
import numpy as np

from precondition import distributed_shampoo as ds
from precondition.tearfree import grafting, praxis_shim

tier = sys.argv[1] if len(sys.argv) > 1 else "quick"
seed = int(os.environ.get("VERIF_SEED", "0"))
rng = np.random.RandomState(seed + 9)
viol, cases = [], 0
G = ds.GraftingType


def add(fn, inp, what):
  if len(viol) < 10:
    viol.append({"function": fn, "input": inp, "what": what})


def graft_step(gt, g, v, beta2, eps):
  if gt in (G.ADAGRAD_NORMALIZED, G.RMSPROP_NORMALIZED):
    g = g / (np.linalg.norm(g) + 1e-25)
  if gt in (G.ADAGRAD, G.ADAGRAD_NORMALIZED):
    v = v + g * g
    return g / (np.sqrt(v) + eps), v
  if gt in (G.RMSPROP, G.RMSPROP_NORMALIZED):
    v = beta2 * v + (1 - beta2) * g * g
    return g / (np.sqrt(v) + eps), v
  if gt == G.SQRT_N:
    return np.sign(g), v
  return g, v


for gt in [g for g in G if g != G.NONE]:
  for shape, comp in [((6, 5), 0), ((7,), 0), ((8, 6), 2), ((3, 4, 2), 0)]:
    for start in (0, 2):
      cases += 1
      kw = dict(compression_rank=comp) if comp else {}
      opt = ds.distributed_shampoo(1.0, block_size=8, beta1=0.0, beta2=0.9, graft_type=gt, nesterov=False,
                                   start_preconditioning_step=start, matrix_epsilon=1e-4, diagonal_epsilon=1e-10,
                                   skip_preconditioning_rank_lt=2, **kw)
      p = {"w": jnp.zeros(shape, jnp.float32), "b": jnp.zeros((shape[0],), jnp.float32)}
      st = opt.init(p)
      v = {k: np.zeros(x.shape) for k, x in p.items()}
      for t in range(4):
        g = {k: rng.randn(*x.shape).astype(np.float32) for k, x in p.items()}
        try:
          u, st = opt.update({k: jnp.asarray(x) for k, x in g.items()}, st, p)
        except Exception as e:  # pylint: disable=broad-except
          add("distributed_shampoo.update", [int(gt), list(shape), comp, start, t], f"raised {type(e).__name__}: {str(e)[:150]}")
          break
        for k in p:
          gs, v[k] = graft_step(gt, g[k].astype(np.float64), v[k], 0.9, 1e-10)
          uu = -np.asarray(u[k], np.float64)
          nu_, ng_ = np.linalg.norm(uu), np.linalg.norm(gs)
          if abs(nu_ - ng_) > 1e-3 * ng_ + 1e-9:
            add("distributed_shampoo.update", [int(gt), list(shape), comp, start, t, k], f"|update| {nu_} != |graft step| {ng_}")
          if (t < start or k == "b") and np.max(np.abs(uu - gs)) > 1e-3 * (np.max(np.abs(gs)) + 1e-9):
            add("distributed_shampoo.update", [int(gt), list(shape), comp, start, t, k], "warm-up / skipped update is not the graft step")

# tearfree grafting with a fixed -2x 'preconditioner'
for gtype in (grafting.GraftingType.SGD, grafting.GraftingType.RMSPROP):
  for start in (0, 2):
    cases += 1
    direction = praxis_shim.ShardedGradientTransformation(
        lambda p: (), lambda u, s, p=None: (jax.tree.map(lambda x: x if grafting._masked(x) else -2.0 * x[::-1], u), s), None)
    tx = grafting.graft(grafting.Options(grafting_type=gtype, second_moment_decay=0.9, start_preconditioning_step=start,
                                         epsilon=1e-12, skip_preconditioning_any_dim_gt=6), direction)
    p = {"m": jnp.zeros((4, 3)), "v": jnp.zeros((5,)), "big": jnp.zeros((7, 2))}
    st = tx.init(p)
    acc = {k: np.zeros(x.shape) for k, x in p.items()}
    for t in range(4):
      g = {k: rng.randn(*x.shape).astype(np.float32) for k, x in p.items()}
      u, st = tx.update({k: jnp.asarray(x) for k, x in g.items()}, st, p)
      for k in p:
        gg = g[k].astype(np.float64)
        if gtype == grafting.GraftingType.RMSPROP:
          acc[k] = 0.9 * acc[k] + 0.1 * gg * gg
          gs = gg / np.sqrt(acc[k] + 1e-12)
        else:
          gs = gg
        uu = np.asarray(u[k], np.float64)
        if k == "m" and t >= start:
          base = -2.0 * gg[::-1]
          want = base * np.linalg.norm(gs) / np.linalg.norm(base)
        else:
          want = gs
        if np.max(np.abs(uu - want)) > 1e-4 * (np.max(np.abs(want)) + 1e-9):
          add("tearfree.grafting", [gtype.value, start, t, k], "grafted update differs from the closed form")

print(json.dumps({"cases": cases, "violations": viol,
                  "bound": f"tier={tier}: 6 graft types x 4 shapes (dense/compressed/rank-1/rank-3) x 2 start steps x 4 steps; tearfree 2 types x 2 starts, seed {seed}"}))
