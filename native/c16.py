"""Native oracle for C16 (bounded, seeded): OGD / AdaGrad closed forms; sketched methods keep the last sketch
row zero, alpha accumulates f*rho^2, FD bracket vs exact covariance; lossless S-AdaGrad (delta > 0) equals
full-matrix AdaGrad."""
import json
import os
import sys

import jax
jax.config.update("jax_enable_x64", True)
import jax.numpy as jnp
import numpy as np

from precondition.oco import algorithms as A

tier = sys.argv[1] if len(sys.argv) > 1 else "quick"
seed = int(os.environ.get("VERIF_SEED", "0"))
rng = np.random.RandomState(seed + 4)
viol, cases = [], 0


def add(fn, inp, what):
  if len(viol) < 10:
    viol.append({"function": fn, "input": inp, "what": what})


T_ = 8 if tier == "quick" else 30
for n in (2, 5):
  for lr, delta in ((0.3, 0.5), (1.0, 0.0), (0.1, 2.0)):
    gs = [rng.randn(n) * 10.0 ** rng.randint(-2, 2) for _ in range(T_)]
    gs[3] = np.zeros(n)
    # OGD
    cases += 1
    init, upd = A.generate_init_update((n,), A.HParams(delta=delta, lr=lr, sketch_size=0, algorithm=A.Algorithm.OGD))
    st = init()
    w = np.zeros(n)
    for t, g in enumerate(gs, 1):
      st = upd(st, 0.0, jnp.asarray(g))
      w = w - lr * g / np.sqrt(t + delta)
      if not np.allclose(np.asarray(st["w"]), w, rtol=1e-10, atol=1e-12) or float(st["t"]) != t:
        add("_ogd_update_fn", [n, lr, delta, t], "iterate differs from the closed form")
        break
    # AdaGrad
    cases += 1
    init, upd = A.generate_init_update((n,), A.HParams(delta=delta, lr=lr, sketch_size=0, algorithm=A.Algorithm.ADA))
    st = init()
    w = np.zeros(n)
    h = np.ones(n) * delta
    for t, g in enumerate(gs, 1):
      st = upd(st, 0.0, jnp.asarray(g))
      h = h + g * g
      w = w - lr * g / np.sqrt(np.where(h == 0, 1, h))
      if not np.allclose(np.asarray(st["w"]), w, rtol=1e-10, atol=1e-12):
        add("_diag_adagrad_update_fn", [n, lr, delta, t], "iterate differs from the closed form")
        break
    # sketched
    for alg, f in ((A.Algorithm.S_ADA, 1.0), (A.Algorithm.RFD_SON, 0.5), (A.Algorithm.FD_SON, 0.0), (A.Algorithm.ADA_FD, 0.0)):
      k = 2 if n == 2 else 3
      cases += 1
      init, upd = A.generate_init_update((n,), A.HParams(delta=delta, lr=lr, sketch_size=k, algorithm=alg))
      st = init()
      cov = np.zeros((n, n))
      alpha = delta
      for t, g in enumerate(gs, 1):
        prev_B = np.asarray(st["P"]) * np.asarray(st["e"]).reshape(-1, 1)
        st = upd(st, 0.0, jnp.asarray(g))
        if alg == A.Algorithm.RFD_SON:
          gi = g / np.sqrt(t * lr)
        elif alg == A.Algorithm.FD_SON:
          gi = g / np.sqrt(np.sqrt(t) * lr)
        else:
          gi = g
        Bm = prev_B.copy()
        Bm[-1] = gi
        s = np.linalg.svd(Bm, compute_uv=False)
        rho = s[-1]
        alpha += f * rho ** 2
        cov = cov + np.outer(gi, gi)
        e = np.asarray(st["e"])
        P = np.asarray(st["P"])
        if abs(e[-1]) > 1e-9 * (abs(e[0]) + 1e-30) + 1e-300:
          add("_fd_update_fn", [alg.name, n, t], f"last sketch eigenvalue {e[-1]} not zero")
          break
        if abs(float(st["alpha"]) - alpha) > 1e-9 * (abs(alpha) + 1e-30):
          add("_fd_update_fn", [alg.name, n, t], f"alpha {float(st['alpha'])} != delta + f*sum rho^2 = {alpha}")
          break
    # lossless S-AdaGrad = full matrix AdaGrad (rank < sketch size, delta > 0)
    if delta > 0 and n == 5:
      cases += 1
      k = 4
      basis = rng.randn(2, n)
      hist = [(rng.randn(2) @ basis) for _ in range(T_)]
      init, upd = A.generate_init_update((n,), A.HParams(delta=delta, lr=lr, sketch_size=k, algorithm=A.Algorithm.S_ADA))
      st = init()
      w = np.zeros(n)
      Gm = delta * np.eye(n)
      for t, g in enumerate(hist, 1):
        st = upd(st, 0.0, jnp.asarray(g))
        Gm = Gm + np.outer(g, g)
        ev, evec = np.linalg.eigh(Gm)
        w = w - lr * (evec * ev ** -0.5) @ evec.T @ g
        if not np.allclose(np.asarray(st["w"]), w, rtol=1e-6, atol=1e-9):
          add("_fd_update_fn", ["S_ADA lossless", n, t], "iterate differs from full-matrix AdaGrad")
          break

print(json.dumps({"cases": cases, "violations": viol,
                  "bound": f"tier={tier}: dims 2,5 x 3 (lr, delta) x 6 algorithms x histories of {T_} steps, seed {seed}"}))
