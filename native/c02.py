"""Native oracle for C02/C05: the public distributed_shampoo update against an independent
float64 reference of the documented math (blocked statistics, inverse 2k-th roots via eigh,
grafting, momentum/Nesterov, weight decay, learning rate), over a seeded grid of configurations.
Bounded."""
import itertools
import json
import os
import sys

import jax
jax.config.update("jax_enable_x64", True)
import jax.numpy as jnp
import numpy as np

from precondition import distributed_shampoo as ds

tier = sys.argv[1] if len(sys.argv) > 1 else "quick"
seed = int(os.environ.get("VERIF_SEED", "0"))
rng = np.random.RandomState(seed + 2)
viol, cases = [], 0
G = ds.GraftingType


def add(fn, inp, what):
  if len(viol) < 10:
    viol.append({"function": fn, "input": inp, "what": what})


def blocks(shape, bs):
  cuts = []
  for d in shape:
    if 0 < bs < d:
      c = list(range(0, d, bs))
      cuts.append([(a, min(a + bs, d)) for a in c])
    else:
      cuts.append([(0, d)])
  return list(itertools.product(*cuts))


def inv_root(S, p, eps):
  w, v = np.linalg.eigh(S)
  mx = max(w.max(), 1e-25)
  w = np.maximum(w + eps * mx, 1e-300)
  return (v * w ** (-1.0 / p)) @ v.T


def reference(cfg, shape, grads, theta, steps):
  beta1, beta2, wd, lr, bs, eps = cfg["beta1"], cfg["beta2"], cfg["weight_decay"], cfg["learning_rate"], cfg["block_size"], cfg["matrix_epsilon"]
  graft = cfg["graft_type"]
  start = cfg["start_preconditioning_step"]
  w = (1 - beta1) if cfg["moving_average_for_momentum"] else 1.0
  w2 = 1.0 if beta2 == 1.0 else 1 - beta2
  bl = blocks(shape, bs)
  rank = len(shape)
  pt = cfg.get("precondtioner_type", ds.PreconditionerType.ALL)
  if pt == ds.PreconditionerType.ALL or rank <= 1:
    axes = list(range(rank))
  elif pt == ds.PreconditionerType.INPUT:
    axes = list(range(rank - 1))
  else:
    axes = [rank - 1]
  stats = {(b, a): eps * np.eye(b[a][1] - b[a][0]) for b in bl for a in range(rank)}
  roots = {k: np.eye(v.shape[0]) for k, v in stats.items()}
  v = np.zeros(shape)
  m = np.zeros(shape)
  md = np.zeros(shape)
  outs = []
  for t in range(steps):
    g = grads[t]
    lr_t = lr(t) if callable(lr) else lr
    for b in bl:
      sl = tuple(slice(lo, hi) for lo, hi in b)
      gb = g[sl]
      for a in range(rank):
        others = [i for i in range(rank) if i != a]
        stats[(b, a)] = beta2 * stats[(b, a)] + w2 * np.tensordot(gb, gb, axes=(others, others))
    for k in stats:
      roots[k] = inv_root(stats[k], 2 * len(axes), eps)
    gt = g
    if graft in (G.ADAGRAD_NORMALIZED, G.RMSPROP_NORMALIZED):
      gt = g / (np.linalg.norm(g) + 1e-25)
    if graft in (G.ADAGRAD, G.ADAGRAD_NORMALIZED):
      v = v + gt * gt
      a_ = gt / (np.sqrt(v) + cfg["diagonal_epsilon"])
    elif graft in (G.RMSPROP, G.RMSPROP_NORMALIZED):
      v = beta2 * v + w2 * gt * gt
      a_ = gt / (np.sqrt(v) + cfg["diagonal_epsilon"])
    elif graft in (G.SGD, G.NONE):
      a_ = g
    else:
      a_ = np.sign(g)
    c = 1.0 if cfg["decoupled_learning_rate"] else lr_t
    a_ = c * a_
    d = np.zeros(shape)
    for b in bl:
      sl = tuple(slice(lo, hi) for lo, hi in b)
      x = g[sl]
      for ax in axes:
        x = np.moveaxis(np.tensordot(roots[(b, ax)], x, axes=([0], [ax])), 0, ax)
      d[sl] = x
    u = d if graft == G.NONE else d * np.linalg.norm(a_) / (np.linalg.norm(d) + 1e-25)
    if wd != 0 and not cfg["decoupled_weight_decay"]:
      u = u + wd * theta
      a_ = a_ + wd * theta
    m = beta1 * m + w * u
    md = beta1 * md + w * a_
    M, U = (md, a_) if t < start else (m, u)
    o = w * U + beta1 * M if cfg["nesterov"] else M
    if wd != 0 and cfg["decoupled_weight_decay"]:
      o = o + (1.0 if cfg["decoupled_learning_rate"] else lr_t) * wd * theta
    outs.append(-(lr_t if cfg["decoupled_learning_rate"] else 1.0) * o)
  return outs


grafts = list(G)
shapes = [(6,), (4, 5), (3, 2, 4)]
n_cfg = 40 if tier == "quick" else 300
for ci in range(n_cfg):
  if ci % 8 == 0:
    jax.clear_caches()
  shape = shapes[ci % len(shapes)]
  sched = bool(rng.randint(2))
  base_lr = float(rng.choice([0.1, 0.5]))
  cfg = dict(
      learning_rate=(lambda t, b=base_lr: b / (1.0 + t)) if sched else base_lr,
      block_size=int(rng.choice([2, 3, 8])), beta1=float(rng.choice([0.0, 0.9])), beta2=float(rng.choice([1.0, 0.99, 0.5])),
      diagonal_epsilon=1e-10, matrix_epsilon=1e-3, weight_decay=float(rng.choice([0.0, 0.1])),
      start_preconditioning_step=int(rng.choice([0, 1, 2])), graft_type=grafts[rng.randint(len(grafts))],
      nesterov=bool(rng.randint(2)), moving_average_for_momentum=bool(rng.randint(2)),
      decoupled_learning_rate=bool(rng.randint(2)), decoupled_weight_decay=bool(rng.randint(2)))
  if ci % 2 == 1:
    cfg["precondtioner_type"] = [ds.PreconditionerType.INPUT, ds.PreconditionerType.OUTPUT][(ci // 2) % 2]
  steps = 4
  grads = [(rng.randn(*shape) * 10.0 ** rng.randint(-2, 2)).astype(np.float32).astype(np.float64) for _ in range(steps)]
  theta = rng.randn(*shape).astype(np.float32).astype(np.float64)
  cases += 1
  try:
    opt = ds.distributed_shampoo(best_effort_shape_interpretation=False, preconditioning_compute_steps=1,
                                 statistics_compute_steps=1, eigh=True, **cfg)
    p = {"w": jnp.asarray(theta, jnp.float32)}
    st = opt.init(p)
    got = []
    for g in grads:
      u, st = opt.update({"w": jnp.asarray(g, jnp.float32)}, st, p)
      got.append(np.asarray(u["w"], np.float64))
  except Exception as e:  # pylint: disable=broad-except
    add("distributed_shampoo.update", {k: str(v) for k, v in cfg.items()}, f"raised {type(e).__name__}: {str(e)[:200]}")
    continue
  want = reference(cfg, shape, grads, theta, steps)
  for t, (a, b) in enumerate(zip(got, want)):
    err = float(np.max(np.abs(a - b)) / (np.max(np.abs(b)) + 1e-12))
    if not np.isfinite(err) or err > 5e-3:
      add("distributed_shampoo.update", {k: str(v) for k, v in cfg.items()} | {"shape": list(shape), "step": t},
          f"update differs from the float64 reference by relative {err}")
      break

# which parameters are preconditioned at all: decided on the parameter's own shape
for shp in [(4, 6), (6,), (3, 2, 4), (40, 2)]:
  for kw in (dict(), dict(skip_preconditioning_rank_lt=2), dict(skip_preconditioning_dim_size_gt=16), dict(skip_preconditioning_rank_lt=3)):
    for be in (True, False):
      cases += 1
      opt = ds.distributed_shampoo(0.1, block_size=8, best_effort_shape_interpretation=be, **kw)
      st = opt.init({"w": jnp.zeros(shp, jnp.float32)})
      skipped = len(st.stats["w"].statistics) == 0
      want = len(shp) < kw.get("skip_preconditioning_rank_lt", 1) or any(d > kw.get("skip_preconditioning_dim_size_gt", 4096) for d in shp)
      if skipped != want:
        add("distributed_shampoo.init", [list(shp), {k: v for k, v in kw.items()}, be],
            f"parameter {'is' if skipped else 'is not'} excluded from preconditioning, documentation says it {'is' if want else 'is not'}")

print(json.dumps({"cases": cases, "violations": viol,
                  "bound": f"tier={tier}: {n_cfg} seeded random configurations x 3 shapes x 4 steps (eigh roots, float32 state vs float64 reference, tol 5e-3), seed {seed}"}))
