"""Native oracle for C13: the same optimizer run under jax.pmap on D forced host
devices (each replica sees the same gradients) must give the same updates and
preconditioners for every D; unbatch(batch(xs)) = xs with element shapes kept.
Bounded: D in 1..Dmax, a few trees.  Prints one JSON object."""
import json
import os
import sys

tier = sys.argv[1] if len(sys.argv) > 1 else "quick"
DMAX = 3 if tier == "quick" else 4
os.environ["XLA_FLAGS"] = f"--xla_force_host_platform_device_count={DMAX}"

import numpy as np
import jax
import jax.numpy as jnp

from precondition import distributed_shampoo as ds

viol = []
cases = 0


def add(fn, inp, what):
  if len(viol) < 12:
    viol.append({"function": fn, "input": inp, "what": what})


# batch / unbatch on index-valued elements, including unit element dims
for d in range(1, DMAX + 1):
  for b in (1, 2, 3):
    for eshape in [(), (3,), (2, 2), (1, 1), (1, 3), (3, 1)]:
      cases += 1
      n = d * b
      xs = [jnp.full(eshape, float(k)) for k in range(n)]
      try:
        out = ds.unbatch(ds.batch(xs, d))
      except Exception as e:  # pylint: disable=broad-except
        add("batch/unbatch", [d, b, list(eshape)], f"raised {type(e).__name__}: {e}")
        continue
      if len(out) != n or any(o.shape != tuple(eshape) for o in out):
        add("unbatch", [d, b, list(eshape)], f"shapes {[o.shape for o in out][:3]} for element shape {eshape}")
      elif any(float(jnp.max(jnp.abs(o - k))) != 0 for k, o in enumerate(out)):
        add("unbatch(batch(xs))", [d, b, list(eshape)], "order or values changed")

trees = [
    {"w": (4, 3)},
    {"a": (5,), "w": (6, 4), "v": (2, 3, 2)},
    {"a": (3, 3), "b": (7,), "c": (2, 5), "d": (4, 4)},
]
configs = [dict(), dict(best_effort_memory_usage_reduction=True)] if tier != "quick" else [dict()]
for ti, tshapes in enumerate(trees):
  for cfg in configs:
    ref = None
    for d in range(1, DMAX + 1):
      cases += 1
      rng = np.random.RandomState(7 + ti)
      params = {k: jnp.asarray(rng.randn(*s), jnp.float32) for k, s in tshapes.items()}
      grads = [{k: jnp.asarray(rng.randn(*s), jnp.float32) for k, s in tshapes.items()} for _ in range(3)]
      opt = ds.distributed_shampoo(0.1, block_size=3, batch_axis_name="batch", start_preconditioning_step=1,
                                   preconditioning_compute_steps=1, **cfg)
      devs = jax.local_devices()[:d]
      rep = lambda t: jax.tree.map(lambda x: jnp.stack([x] * d), t)
      try:
        state = jax.pmap(opt.init, axis_name="batch", devices=devs)(rep(params))
        upd = jax.pmap(opt.update, axis_name="batch", devices=devs)
        outs = []
        for g in grads:
          u, state = upd(rep(g), state, rep(params))
          outs.append(u)
      except Exception as e:  # pylint: disable=broad-except
        add("distributed_shampoo(pmap)", [sorted(tshapes.items()), d, cfg], f"raised {type(e).__name__}: {str(e)[:200]}")
        continue
      flat = np.concatenate([np.asarray(x[0]).ravel() for o in outs for x in jax.tree.leaves(o)])
      per_dev = max(float(np.max(np.abs(np.asarray(x) - np.asarray(x[0])[None]))) for o in outs for x in jax.tree.leaves(o))
      if per_dev != 0:
        add("distributed_shampoo(pmap)", [sorted(tshapes.items()), d, cfg], f"replicas disagree by {per_dev}")
      if ref is None:
        ref = flat
      else:
        err = float(np.max(np.abs(flat - ref)) / (np.max(np.abs(ref)) + 1e-30))
        if not np.isfinite(err) or err > 1e-4:
          add("distributed_shampoo(pmap)", [sorted(tshapes.items()), d, cfg],
              f"updates on {d} devices differ from 1 device by relative {err}")

print(json.dumps({"cases": cases, "violations": viol,
                  "bound": f"tier={tier}: D in 1..{DMAX}, 3 parameter trees (1..4 leaves, 3..9 statistics), 3 steps; "
                           "batch/unbatch for b in 1..3 and 6 element shapes"}))
