"""Exhaustive enumeration of lemma A' of C11 on the real code: every finite non-negative float32 value m is put in
its own one-row column (so the column maximum is m itself) and run through the real QuantizedValue.quantize on
XLA CPU; checks |stored integer| <= N (no wrap) for int8 and int16.  Complete for that single-variable lemma."""
import json
import sys
import time

import numpy as np
import jax.numpy as jnp

from precondition.quantization_utils import QuantizedValue

dts = sys.argv[1:] or ["int16", "int8"]
t0 = time.time()
bad = []
total = 0
CH = 1 << 24
for dtn in dts:
  dt = jnp.int16 if dtn == "int16" else jnp.int8
  N = 32767 if dtn == "int16" else 127
  for c in range(0, 0x7F800000, CH):
    bits = np.arange(c, min(c + CH, 0x7F800000), dtype=np.uint32)
    x = bits.view(np.float32).reshape(1, -1)
    q, _, b = QuantizedValue.quantize(jnp.asarray(x), dt)
    q = np.asarray(q)
    total += q.size
    w = np.nonzero((q < -N) | (q > N))[1]
    if w.size:
      bad.append({"dtype": dtn, "value_bits": int(bits[w[0]]), "value": float(x[0, w[0]]), "stored": int(q[0, w[0]])})
      break
print(json.dumps({"cases": total, "violations": [{"function": "QuantizedValue.quantize", "input": v, "what": "stored integer out of range"} for v in bad],
                  "bound": f"exhaustive: all {0x7F800000} finite non-negative float32 values per dtype ({', '.join(dts)}), one value per column",
                  "exhaustive": True, "secs": round(time.time() - t0, 1)}))
