"""Native oracle for C07 (bounded sweep): option combinations x parameter trees through the public API.
init/update either succeed or raise an explanatory rejection (ValueError / NotImplementedError / an assertion WITH a
message); on success the update has the parameters' structure/shapes/dtype and the state layout is a fixed point;
sharded: declared shapes/dtypes and partition specs describe the tree sharded_init_fn builds; Tearfree Sketchy
under jax_enable_x64 (sub-process)."""
import json
import os
import subprocess
import sys

import numpy as np
import jax
import jax.numpy as jnp
from jax.sharding import Mesh, PartitionSpec as P

from precondition import distributed_shampoo as ds
from precondition import sm3

tier = sys.argv[1] if len(sys.argv) > 1 else "quick"
viol, cases = [], 0


def add(fn, inp, what):
  if len(viol) < 14:
    viol.append({"function": fn, "input": inp, "what": what})


def sig(tree):
  return str(jax.tree.structure(tree)), [(tuple(x.shape), str(x.dtype)) for x in jax.tree.leaves(tree)]


TREES = {
    "matrix": {"w": (4, 3)}, "vector": {"b": (5,)}, "scalar": {"s": ()}, "unit-dims": {"u": (1, 1), "v": (3, 1)},
    "rank3": {"t": (3, 2, 2)}, "mixed": {"w": (6, 4), "b": (4,)},
    "matrix+scalar": {"w": (4, 3), "s": ()},
}
CONFIGS = {
    "default": dict(),
    "rmsprop-intervals": dict(graft_type=ds.GraftingType.RMSPROP, statistics_compute_steps=2, preconditioning_compute_steps=2),
    "block1": dict(block_size=1),
    "int8-momenta": dict(best_effort_memory_usage_reduction=True),
    "no-metrics": dict(generate_training_metrics=False),
    "skip-rank<2": dict(skip_preconditioning_rank_lt=2),
    "precond-INPUT": dict(precondtioner_type=ds.PreconditionerType.INPUT),
    "precond-OUTPUT": dict(precondtioner_type=ds.PreconditionerType.OUTPUT),
    "eigh": dict(eigh=True),
    "compressed": dict(compression_rank=1, block_size=8),
    "reuse": dict(reuse_preconditioner=True),
    "fd": dict(compression_rank=1, block_size=8, frequent_directions=True, reuse_preconditioner=True),
    "fd-no-reuse": dict(compression_rank=1, block_size=8, frequent_directions=True),
    "fd-metrics-only": dict(compression_rank=1, block_size=8, frequent_directions=True, reuse_preconditioner=True, generate_fd_metrics=True,
                            generate_training_metrics=False),
    "fd-metrics": dict(compression_rank=1, block_size=8, frequent_directions=True, reuse_preconditioner=True, generate_fd_metrics=True,
                       skip_preconditioning_rank_lt=2),
    "graft-ADAGRAD": dict(graft_type=ds.GraftingType.ADAGRAD),
    "graft-ADAGRAD_NORMALIZED": dict(graft_type=ds.GraftingType.ADAGRAD_NORMALIZED),
    "graft-RMSPROP_NORMALIZED": dict(graft_type=ds.GraftingType.RMSPROP_NORMALIZED),
    "graft-SQRT_N": dict(graft_type=ds.GraftingType.SQRT_N),
    "graft-NONE": dict(graft_type=ds.GraftingType.NONE),
    "fd-avg-grad": dict(compression_rank=1, block_size=8, frequent_directions=True, reuse_preconditioner=True, average_grad=True,
                        skip_preconditioning_rank_lt=2),
}
if tier == "quick":
  TREES = {k: TREES[k] for k in ("matrix", "vector", "unit-dims", "mixed", "matrix+scalar")}


def explanatory(e):
  return isinstance(e, (ValueError, NotImplementedError)) or (isinstance(e, AssertionError) and str(e).strip() != "")


rng = np.random.RandomState(3)
for cname, cfg in CONFIGS.items():
  jax.clear_caches()
  for tname, tshapes in TREES.items():
    cases += 1
    kw = dict(learning_rate=0.1, block_size=4)
    kw.update(cfg)
    try:
      opt = ds.distributed_shampoo(**kw)
      params = {k: jnp.zeros(s, jnp.float32) for k, s in tshapes.items()}
      st0 = opt.init(params)
      st = st0
      for _ in range(2):
        g = {k: jnp.asarray(np.asarray(rng.randn(*s), np.float32)) for k, s in tshapes.items()}
        u, st = opt.update(g, st, params)
        if sig(u) != sig(params):
          add("distributed_shampoo.update", [cname, tname], f"update layout {sig(u)[1]} != parameters {sig(params)[1]}")
        if sig(st) != sig(st0):
          add("distributed_shampoo.update", [cname, tname], "state layout changed after an update")
          break
    except Exception as e:  # pylint: disable=broad-except
      if not explanatory(e):
        add("distributed_shampoo", [cname, tname], f"internal error {type(e).__name__}: {str(e)[:160]!r}")

# sharded
mesh = Mesh(np.array(jax.devices()[:1]), ("x",))
for cname in ("default", "int8-momenta", "reuse", "fd"):
  for tname in ("matrix", "mixed"):
    cases += 1
    kw = dict(learning_rate=0.1, block_size=4, shard_optimizer_states=True, num_devices_for_pjit=1,
              statistics_partition_spec=P("x", None, None), preconditioner_partition_spec=P("x", None, None))
    kw.update(CONFIGS[cname])
    tshapes = TREES[tname]
    try:
      opt = ds.distributed_shampoo(**kw)
      params = {k: jnp.zeros(s, jnp.float32) for k, s in tshapes.items()}
      fns = opt.init(params)
      with mesh:
        actual = fns.init_fn(params)
      declared = fns.shape_and_dtype_fn(params)
      pspecs = fns.pspec_fn(params, {k: P() for k in params}, P("x", None, None))
      la = jax.tree.leaves(actual)
      ld = jax.tree.leaves(declared, is_leaf=lambda x: isinstance(x, list) and len(x) == 2 and isinstance(x[0], (list, tuple)))
      ld = [x for x in ld if isinstance(x, list) and len(x) == 2]
      if len(la) != len(ld):
        add("sharded_init_shape_and_dtype_fn", [cname, tname], f"{len(la)} array leaves but {len(ld)} declared entries")
      else:
        for a, d in zip(la, ld):
          if tuple(a.shape) != tuple(d[0]) or jnp.dtype(a.dtype) != jnp.dtype(d[1]):
            add("sharded_init_shape_and_dtype_fn", [cname, tname], f"actual {tuple(a.shape)} {a.dtype} declared {tuple(d[0])} {jnp.dtype(d[1])}")
            break
      lp = jax.tree.leaves(pspecs, is_leaf=lambda x: isinstance(x, P))
      if len(lp) != len(la):
        add("sharded_init_partition_spec_fn", [cname, tname], f"{len(la)} array leaves but {len(lp)} partition specs")
      with mesh:
        g = {k: jnp.asarray(np.asarray(rng.randn(*s), np.float32)) for k, s in tshapes.items()}
        u, st1 = jax.jit(opt.update)(g, actual, params)
      if sig(st1) != sig(actual):
        add("sharded_update_fn", [cname, tname], "sharded state layout changed after an update")
    except Exception as e:  # pylint: disable=broad-except
      if not explanatory(e):
        add("distributed_shampoo(sharded)", [cname, tname], f"internal error {type(e).__name__}: {str(e)[:160]!r}")

# sm3 + tearfree sketchy under x64 in a sub-process
cases += 1
code = r'''
import jax, jax.numpy as jnp
from precondition.tearfree import sketchy
tx = sketchy.apply(sketchy.Options(rank=2))
p = jnp.zeros((4, 3))
st = tx.init(p)
u, st1 = tx.update(jnp.ones((4, 3)), st, p)
assert jax.tree.structure(st) == jax.tree.structure(st1)
print("OK", u.dtype)
'''
env = dict(os.environ, JAX_ENABLE_X64="1", PYTHONPATH=os.environ.get("PYTHONPATH", "/repo"), JAX_PLATFORMS="cpu")
r = subprocess.run([sys.executable, "-c", code], capture_output=True, text=True, env=env)
if "OK" not in r.stdout:
  add("tearfree.sketchy under jax_enable_x64", [], (r.stderr.strip().splitlines() or ["failed"])[-1][:200])

print(json.dumps({"cases": cases, "violations": viol,
                  "bound": f"tier={tier}: {len(CONFIGS)} option combinations x {len(TREES)} trees x 2 updates; 4 x 2 sharded; Sketchy under x64"}))
