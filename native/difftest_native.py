"""Reference side of the interpreter-vs-CPython differential test: runs real repository functions on seeded
concrete inputs under /venv/bin/python and prints the results as JSON (lists)."""
import json
import sys

import numpy as np
import jax.numpy as jnp

from precondition import distributed_shampoo as ds
from precondition.tearfree import reshaper, shampoo as tsh

seed = int(sys.argv[1]) if len(sys.argv) > 1 else 0
rng = np.random.RandomState(seed)
cases = []


def arr(shape):
  n = int(np.prod(shape)) if shape else 1
  return np.arange(1, n + 1, dtype=np.float32).reshape(shape)


def tl(x):
  return np.asarray(x).tolist()


for _ in range(25):
  rank = rng.randint(0, 5)
  shape = [int(rng.choice([1, 2, 3, 4, 6])) for _ in range(rank)]
  md = int(rng.choice([1, 2, 4, 6, 12, 100]))
  cases.append({"fn": "merge_small_dims", "args": [shape, md], "out": [int(v) for v in ds.merge_small_dims(shape, md)]})
for _ in range(20):
  r, d = int(rng.randint(-4, 5)), int(rng.randint(1, 9))
  cases.append({"fn": "_precond_dim", "args": [r, d], "out": int(ds._precond_dim(r, d))})
  cases.append({"fn": "_should_compress", "args": [r, d], "out": bool(ds._should_compress(r, d))})
for _ in range(12):
  rank = rng.randint(1, 4)
  shape = [int(rng.choice([1, 2, 3, 4, 5, 6])) for _ in range(rank)]
  bs = int(rng.choice([1, 2, 3, 4, 7]))
  x = arr(shape)
  bp = ds.BlockPartitioner(jnp.asarray(x), bs)
  parts = bp.partition(jnp.asarray(x))
  cases.append({"fn": "BlockPartitioner", "args": [shape, bs],
                "out": {"sizes": [tl(s) for s in bp.split_sizes()], "parts": [tl(p) for p in parts],
                        "merged": tl(bp.merge_partitions(parts))}})
  for pt in (1, 2, 3):
    pre = ds.Preconditioner(jnp.asarray(x), bs, 4, True, ds.PreconditionerType(pt), int(rng.choice([0, 1])))
    cases.append({"fn": "Preconditioner", "args": [shape, bs, pt, pre._compression_rank],
                  "out": {"shapes": [[int(a), int(b)] for a, b in pre.shapes_for_preconditioners()],
                          "should": [bool(b) for b in pre.should_precondition_dims()],
                          "exponent": int(pre.exponent_for_preconditioner())}})
for _ in range(10):
  rank = rng.randint(0, 4)
  shape = [int(rng.choice([1, 2, 3, 4, 5])) for _ in range(rank)]
  md, bs = int(rng.choice([2, 4, 12])), int(rng.choice([0, 2, 3]))
  x = arr(shape)
  opts = reshaper.Options(md, bs)
  sh = reshaper._derive_shapes(opts, jnp.asarray(x))
  m = reshaper.merge(opts)
  u = reshaper.unmerge(opts)
  y, _ = m.update(jnp.asarray(x), None, jnp.asarray(x))
  z, _ = u.update(y, None, jnp.asarray(x))
  cases.append({"fn": "reshaper", "args": [shape, md, bs],
                "out": {"merged": [int(v) for v in sh.merged_shape], "padded": [int(v) for v in sh.padded_shape], "y": tl(y), "z": tl(z)}})
for shape, bs in [((8, 3), 4), ((2, 6), 3), ((8, 2, 4), 4), ((3, 2), 4), ((6,), 3), ((2, 4, 3), 4)]:
  x = arr(shape)
  meta = tsh._blocks_metadata(tsh.Options(block_size=bs), x.shape, "p")
  y = tsh._blockify(jnp.asarray(x), meta)
  cases.append({"fn": "blockify", "args": [list(shape), bs],
                "out": {"num_blocks": int(meta.num_blocks), "block_sizes": [int(v) for v in meta.block_sizes],
                        "blocks_axis": int(meta.blocks_axis), "y": tl(y), "z": tl(tsh._deblockify(y, meta))}})
for d, b in [(1, 1), (2, 2), (3, 1), (2, 3)]:
  xs = [arr((2, 2)) * (k + 1) for k in range(d * b)]
  bt = ds.batch([jnp.asarray(v) for v in xs], d)
  cases.append({"fn": "batch", "args": [d, b], "out": {"batched": tl(bt), "unbatched": [tl(v) for v in ds.unbatch(bt)]}})
for d, r in [(4, 1), (6, 2), (7, 3)]:
  V, e, ie = arr((d, r)), arr((r,)), arr((r,)) * 10
  p = ds._fd_low_rank_pack(jnp.asarray(V), jnp.asarray(e), jnp.asarray(ie), 3.5, 2.5, True, -r)
  un = ds._fd_low_rank_unpack(p, r)
  cases.append({"fn": "pack", "args": [d, r], "out": {"packed": tl(p), "unpacked": [tl(v) for v in un]}})
print(json.dumps(cases))
