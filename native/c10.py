"""Native oracle for C10 (bounded): pack/unpack round trip for d<=9, |r|+2<d; compressed
application equals the dense matrix c(I-VV')+V diag(e) V' for gradients of rank 1..3 on every
axis; _low_rank_root denotes the exact root with the non-retained directions averaged."""
import itertools
import json
import sys

import jax
jax.config.update("jax_enable_x64", True)
import jax.numpy as jnp
import numpy as np

from precondition import distributed_shampoo as ds

tier = sys.argv[1] if len(sys.argv) > 1 else "quick"
viol = []
cases = 0
rng = np.random.RandomState(int(__import__("os").environ.get("VERIF_SEED", "0")) + 3)


def add(fn, inp, what):
  if len(viol) < 12:
    viol.append({"function": fn, "input": inp, "what": what})


for d in range(4, 10 if tier == "quick" else 14):
  for r in range(1, d - 2):
    for sgn in (1, -1):
      cases += 1
      V = jnp.asarray(rng.randn(d, r))
      e = jnp.asarray(rng.rand(r))
      ie = jnp.asarray(rng.rand(r))
      c, t = float(rng.rand()), float(rng.rand())
      for z in (False, True):
        try:
          p = ds._fd_low_rank_pack(V, e, ie, c, t, z, sgn * r)
          V2, e2, ie2, c2, t2, z2 = ds._fd_low_rank_unpack(p, sgn * r)
        except Exception as ex:  # pylint: disable=broad-except
          add("_fd_low_rank_pack", [d, sgn * r], f"raised {type(ex).__name__}: {ex}")
          continue
        f32 = lambda a: np.asarray(a, np.float32)
        if not (np.array_equal(f32(V2), f32(V)) and np.array_equal(f32(e2), f32(e)) and np.array_equal(f32(ie2), f32(ie))
                and np.float32(c2) == np.float32(c) and np.float32(t2) == np.float32(t) and bool(z2) == z):
          add("_fd_low_rank_unpack(pack)", [d, sgn * r, z], "fields differ after the round trip")
      if (ds._precond_dim(sgn * r, d) != d) != bool(ds._should_compress(sgn * r, d)):
        add("_precond_dim/_should_compress", [d, sgn * r], "inconsistent")

# compressed application vs dense
shapes = [(6,), (6, 5), (5, 6), (6, 5, 7)] if tier == "quick" else [(6,), (6, 5), (5, 6), (6, 5, 7), (7, 6, 5)]
for shp in shapes:
  for r in (1, 2, -2):
    cases += 1
    g = jnp.asarray(rng.randn(*shp))
    pre = ds.Preconditioner(g, 0, 4096, False, ds.PreconditionerType.ALL, r)
    packed, dense = [], []
    for dim in shp:
      if abs(r) + 2 < dim:
        q, _ = np.linalg.qr(rng.randn(dim, abs(r)))
        e = rng.rand(abs(r)) + 0.5
        c = rng.rand() + 0.5
        packed.append(ds._low_rank_pack(jnp.asarray(q), jnp.asarray(e), c, r))
        dense.append(c * (np.eye(dim) - q @ q.T) + q @ np.diag(e) @ q.T)
      else:
        a = rng.randn(dim, dim)
        a = a @ a.T
        packed.append(jnp.asarray(a))
        dense.append(a)
    try:
      got = np.asarray(pre.preconditioned_grad(g, packed))
    except Exception as ex:  # pylint: disable=broad-except
      add("Preconditioner._precondition_block", [list(shp), r], f"raised {type(ex).__name__}: {ex}")
      continue
    want = np.asarray(g)
    for ax, D in enumerate(dense):
      want = np.moveaxis(np.tensordot(D, want, axes=([1], [ax])), 0, ax)
    err = float(np.max(np.abs(got - want)) / (np.max(np.abs(want)) + 1e-30))
    if err > 1e-5:
      add("Preconditioner._precondition_block(compressed)", [list(shp), r], f"differs from the dense matrices by {err}")

# flagged has_zeros: the gradient is returned unchanged whatever the packed contents are (finite or not)
for shp in [(6,), (6, 5)]:
  for poison in (None, np.inf, np.nan, 3e38):
    cases += 1
    g = jnp.asarray(rng.randn(*shp))
    pre = ds.Preconditioner(g, 0, 4096, False, ds.PreconditionerType.ALL, 1)
    packed = []
    for dim in shp:
      V = rng.randn(dim, 1)
      if poison is not None:
        V[dim // 2, 0] = poison
      packed.append(ds._fd_low_rank_pack(jnp.asarray(V), jnp.zeros((1,)), jnp.asarray(rng.rand(1) + 0.5), 0.7, 0.0, True, 1))
    try:
      got = np.asarray(pre.preconditioned_grad(g, packed))
    except Exception as ex:  # pylint: disable=broad-except
      add("Preconditioner._precondition_block", [list(shp), "flagged", str(poison)], f"raised {type(ex).__name__}: {ex}")
      continue
    if not np.array_equal(got, np.asarray(g)):
      add("Preconditioner._precondition_block(flagged has_zeros)", [list(shp), f"eigenvector entry {poison}"],
          "a preconditioner flagged has_zeros did not leave the gradient unchanged")

# _low_rank_root denotes the root with averaged complement
for d, r, pad in [(7, 2, None), (7, -2, None), (8, 2, 6), (8, -2, 6), (9, 3, 9)]:
  cases += 1
  n = pad if pad is not None else d
  a = rng.randn(n, n)
  ev = np.sort(rng.rand(n) * 10 + 0.1)
  q, _ = np.linalg.qr(a)
  A = np.zeros((d, d))
  A[:n, :n] = q @ np.diag(ev) @ q.T
  p = 4
  try:
    packed, metrics = ds._low_rank_root(jnp.asarray(A), p, r, ridge_epsilon=0.0, relative_matrix_epsilon=False,
                                        padding_start=pad)
    V, ie, c, hz = ds._low_rank_unpack(packed, r)
  except Exception as ex:  # pylint: disable=broad-except
    add("_low_rank_root", [d, r, pad], f"raised {type(ex).__name__}: {ex}")
    continue
  V, ie, c = np.asarray(V), np.asarray(ie), float(c)
  got = c * (np.eye(d) - V @ V.T) + V @ np.diag(ie) @ V.T
  roots = ev ** (-1.0 / p)
  keep = np.argsort(ev)[-abs(r):] if r > 0 else np.argsort(ev)[:abs(r)]
  rest = [i for i in range(n) if i not in set(keep)]
  vals = roots.copy()
  vals[rest] = roots[rest].mean()
  want = np.zeros((d, d))
  want[:n, :n] = q @ np.diag(vals) @ q.T
  err = float(np.max(np.abs(got[:n, :n] - want[:n, :n])) / np.max(np.abs(want)))
  if err > 1e-3:
    add("_low_rank_root", [d, r, pad], f"packed root differs from exact root with averaged complement by {err}")

# rank-deficient statistics (G G' with fewer columns than rows) with a positive ridge: null-space eigenvalues are
# ridge +- round-off; their root value is ridge^(-1/p), never 0
for d, r, cols in [(6, 1, 2), (8, 2, 3), (8, -2, 3), (10, 3, 4)]:
  cases += 1
  G = rng.randint(-3, 4, size=(d, cols)).astype(np.float64)
  A = G @ G.T
  eps = 1e-6
  p = 4
  try:
    packed, metrics = ds._low_rank_root(jnp.asarray(A, jnp.float32), p, r, ridge_epsilon=eps, relative_matrix_epsilon=False)
    V, ie, c, hz = ds._low_rank_unpack(packed, r)
  except Exception as ex:  # pylint: disable=broad-except
    add("_low_rank_root", [d, r, cols, "rank-deficient"], f"raised {type(ex).__name__}: {ex}")
    continue
  V, ie, c = np.asarray(V, np.float64), np.asarray(ie, np.float64), float(c)
  got = c * (np.eye(d) - V @ V.T) + V @ np.diag(ie) @ V.T
  ev, q = np.linalg.eigh(A + eps * np.eye(d))
  roots = np.maximum(ev, eps) ** (-1.0 / p)
  keep = np.argsort(ev)[-abs(r):] if r > 0 else np.argsort(ev)[:abs(r)]
  rest = [i for i in range(d) if i not in set(keep)]
  vals = roots.copy()
  vals[rest] = roots[rest].mean()
  if r > 0:  # retained = well separated top directions: compare the denoted matrix; r < 0 retains a degenerate null space: compare the constant
    want = q @ np.diag(vals) @ q.T
    err = float(np.max(np.abs(got - want)) / np.max(np.abs(want)))
  else:
    err = abs(c - roots[rest].mean()) / roots[rest].mean()
  if err > 2e-2:
    add("_low_rank_root", [d, r, cols, "rank-deficient"], f"packed root differs from the exact root with averaged complement by relative {err:.3g}")

print(json.dumps({"cases": cases, "violations": viol,
                  "bound": f"tier={tier}: d<=9(13), all |r|+2<d, both signs; 4 gradient shapes x 3 ranks; 5 root instances"}))
