"""Native oracle for C17: create_redist_dict on synthetic in-memory states; checks that every
sketched axis gets an integer rank in [1, dim] and that each equal-dimension group sums to at
most group size * base rank.  Bounded: seeded random instances + directed scale-disparate ones."""
import json
import os
import sys

import numpy as np
import jax.numpy as jnp

from precondition.tearfree import reallocation

tier = sys.argv[1] if len(sys.argv) > 1 else "quick"
seed = int(os.environ.get("VERIF_SEED", "0"))
rng = np.random.RandomState(seed + 11)
viol = []
cases = 0


def add(inp, what):
  if len(viol) < 12:
    viol.append({"function": "create_redist_dict", "input": inp, "what": what})


def make_states(dims_per_layer, scores):
  sk = {}
  for li, (dims, sc) in enumerate(zip(dims_per_layer, scores)):
    axes = {}
    for ai, (d, s) in enumerate(zip(dims, sc)):
      axes[str(ai)] = {"eigvals": jnp.asarray([s], jnp.float32), "dim": d,
                       "tail": jnp.asarray(s, jnp.float32)}
    sk[f"layer{li}"] = {"axes": axes}
  return [{"inner_state": {"0": {"direction": {"1": {"sketches": sk}}}}}]


def check(dims_per_layer, scores, rank, rule="sketch_trace"):
  global cases
  cases += 1
  inp = {"dims": dims_per_layer, "scores": scores, "rank": rank, "rule": rule}
  try:
    res = reallocation.create_redist_dict("", [], rule, False, rank, states=make_states(dims_per_layer, scores))
  except AssertionError as e:
    add(inp, f"internal AssertionError {e}")
    return
  except Exception as e:  # pylint: disable=broad-except
    add(inp, f"raised {type(e).__name__}: {e}")
    return
  groups = {}
  for li, dims in enumerate(dims_per_layer):
    ranks = res[f"layer{li}"]
    for d, r in zip(dims, ranks):
      if int(r) != r or not 1 <= r <= d:
        add(inp, f"layer{li}: rank {r} outside [1, {d}]; result {res}")
        return
      groups.setdefault(d, []).append(int(r))
  for d, rs in groups.items():
    if sum(rs) > len(rs) * rank:
      add(inp, f"group of dimension {d}: ranks {rs} sum to {sum(rs)} > {len(rs)}*{rank}; result {res}")
      return


# directed: scale-disparate scores (float32 cancellation), zeros, ties
check([[4, 4], [4, 4], [4, 4]], [[1e6, 1e6], [1e-6, 1e-6], [1e-6, 1e-6]], 4)
check([[3, 3], [3, 3], [3, 3]], [[0.0, 0.0], [1e6, 1e6], [0.0, 0.0]], 2)
check([[5, 5]], [[0.0, 0.0]], 3)
check([[6, 6], [6, 6]], [[1.0, 1.0], [1.0, 1.0]], 2)
check([[8, 8], [8, 8], [8, 8], [8, 8]], [[3e20, 1.0], [1.0, 1e-30], [1e-10, 5.0], [7.0, 7.0]], 5)
# two groups of different dimension, the larger one carries no signal (its budget is left unused)
check([[512, 384], [512, 384], [512, 384]], [[0.0, 2.0], [0.0, 1.0], [0.0, 0.5]], 64)
check([[16, 9], [16, 9]], [[0.0, 3.0], [0.0, 1.0]], 4)
check([[9, 16], [9, 16], [9, 16]], [[1e6, 0.0], [1e-6, 0.0], [1e-6, 1.0]], 3)
n_rand = 150 if tier == "quick" else 1500
for _ in range(n_rand):
  L = rng.randint(1, 6)
  pool = list(rng.choice([2, 3, 4, 6, 9, 16], size=rng.randint(1, 3), replace=False))
  dims = [[int(rng.choice(pool)), int(rng.choice(pool))] for _ in range(L)]
  mode = rng.randint(0, 4)
  if mode == 0:
    sc = [[float(10.0 ** rng.uniform(-30, 20)) for _ in range(2)] for _ in range(L)]
  elif mode == 1:
    sc = [[float(rng.choice([0.0, 1.0, 2.0])) for _ in range(2)] for _ in range(L)]
  elif mode == 2:
    sc = [[float(rng.rand()) for _ in range(2)] for _ in range(L)]
  else:
    sc = [[float(10.0 ** rng.uniform(-8, 8)) for _ in range(2)] for _ in range(L)]
  check(dims, sc, int(rng.randint(1, 7)), rule=str(rng.choice(["sketch_trace", "tail_rho"])))

print(json.dumps({"cases": cases, "violations": viol,
                  "bound": f"tier={tier}: 5 directed + {n_rand} seeded random instances (1..5 layers x 2 axes, dims from a pool of 6, scores 1e-30..3e20), seed {seed}"}))
