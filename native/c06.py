"""Native oracle for C06 (run under /venv/bin/python with PYTHONPATH=/repo).

Evaluates the property's own observable on the real code over an exhaustive
bounded enumeration.  Used (a) to replay a failed obligation against the real
code and (b) as the *bounded* stand-in B7 in the thorough tier.
Prints one JSON object: {"cases": n, "violations": [...], "bound": "..."}.
"""
import itertools
import json
import sys

import numpy as np

import jax
import jax.numpy as jnp

from precondition import distributed_shampoo as ds
from precondition.tearfree import reshaper
from precondition.tearfree import shampoo as tshampoo

tier = sys.argv[1] if len(sys.argv) > 1 else "quick"
MAXV = 12
viol = []
cases = 0


def add(fn, inp, what):
  if len(viol) < MAXV:
    viol.append({"function": fn, "input": inp, "what": what})


def shapes(max_rank, dims):
  for r in range(0, max_rank + 1):
    for s in itertools.product(dims, repeat=r):
      yield s


# merge_small_dims
dims = (1, 2, 3, 5) if tier == "quick" else (1, 2, 3, 4, 5, 7)
for s in shapes(4, dims):
  for md in (1, 2, 3, 4, 6, 10, 30, 1000):
    cases += 1
    try:
      r = ds.merge_small_dims(list(s), md)
    except Exception as e:  # pylint: disable=broad-except
      add("merge_small_dims", [list(s), md], f"raised {type(e).__name__}: {e}")
      continue
    p = int(np.prod(s)) if s else 1
    pr = int(np.prod(r)) if r else 1
    if pr != p:
      add("merge_small_dims", [list(s), md], f"element count {p} -> {pr}: {r}")
    elif r != [1] and any(x <= 1 for x in r):
      add("merge_small_dims", [list(s), md], f"unit/zero entry in {r}")
    elif not s and r:
      add("merge_small_dims", [list(s), md], f"empty shape gives {r}")
    elif r != [1] and any(x > md and x not in s for x in r):
      add("merge_small_dims", [list(s), md], f"merged entry above the limit in {r}")

# BlockPartitioner / Preconditioner
dims = (1, 2, 3, 4) if tier == "quick" else (1, 2, 3, 4, 5, 6)
for s in shapes(3, dims):
  if not s:
    continue
  n = int(np.prod(s))
  x = jnp.arange(n, dtype=jnp.float32).reshape(s)
  for bs in ((1, 2, 3, 5) if tier == "quick" else (1, 2, 3, 4, 5, 6, 7)):
    cases += 1
    try:
      bp = ds.BlockPartitioner(x, bs)
      parts = bp.partition(x)
      back = bp.merge_partitions(parts)
    except Exception as e:  # pylint: disable=broad-except
      add("BlockPartitioner", [list(s), bs], f"raised {type(e).__name__}: {e}")
      continue
    if back.shape != x.shape or not bool(jnp.all(back == x)):
      add("BlockPartitioner.merge_partitions", [list(s), bs], "merge(partition(x)) != x")
    if any(d > bs or d < 1 for p in parts for d in p.shape if bs < max(s)) and any(
        d > bs for p in parts for d in p.shape):
      add("BlockPartitioner.__init__", [list(s), bs], f"block larger than block size: {[p.shape for p in parts]}")
    if any(0 in p.shape for p in parts):
      add("BlockPartitioner.__init__", [list(s), bs], "zero-size block")
    if sum(int(np.prod(p.shape)) for p in parts) != n:
      add("BlockPartitioner.partition", [list(s), bs], "blocks do not cover the tensor")
    # k-th block = k-th box in itertools.product order (last axis fastest)
    import itertools as _it
    cuts = [list(range(0, d, bs)) if 0 < bs < d else [0] for d in s]
    xn = np.asarray(x)
    for k, starts in enumerate(_it.product(*cuts)):
      box = xn[tuple(slice(a, a + (bs if 0 < bs < d else d)) for a, d in zip(starts, s))]
      if k >= len(parts) or parts[k].shape != box.shape or not np.array_equal(np.asarray(parts[k]), box):
        add("BlockPartitioner.partition", [list(s), bs], f"block {k} is not the box starting at {list(starts)} (product order)")
        break
    for pt in ds.PreconditionerType:
      for cr in (0, 1):
        pre = ds.Preconditioner(x, bs, 4096, False, pt, cr)
        shp = pre.shapes_for_preconditioners()
        should = pre.should_precondition_dims()
        npre = sum(should)
        if pre.exponent_for_preconditioner() != 2 * npre:
          add("Preconditioner.exponent_for_preconditioner", [list(s), bs, int(pt)], "exponent != 2*#axes")
        if len(shp) != len(parts) * npre:
          add("Preconditioner.shapes_for_preconditioners", [list(s), bs, int(pt)],
              f"{len(shp)} shapes for {len(parts)} blocks x {npre} axes")
          continue
        k = 0
        for p in parts:
          for ax, sh in enumerate(should):
            if sh:
              want = [p.shape[ax], ds._precond_dim(cr, p.shape[ax])]
              if list(map(int, shp[k])) != want:
                add("Preconditioner.shapes_for_preconditioners", [list(s), bs, int(pt), cr],
                    f"shape {k}: {shp[k]} vs block axis {want}")
              k += 1
        if cr == 0:
          eyes = [jnp.eye(int(a)) for a, _ in shp]
          try:
            g = pre.preconditioned_grad(x, eyes)
            if g.shape != x.shape or not bool(jnp.all(g == x)):
              add("Preconditioner.preconditioned_grad", [list(s), bs, int(pt)], "identity preconditioning changed the gradient")
          except Exception as e:  # pylint: disable=broad-except
            add("Preconditioner._preconds_for_grad", [list(s), bs, int(pt)], f"raised {type(e).__name__}: {e}")

# tearfree reshaper round trip
dims = (1, 2, 3, 4) if tier == "quick" else (1, 2, 3, 4, 5, 6)
for s in shapes(3, dims):
  n = int(np.prod(s)) if s else 1
  x = jnp.arange(1, n + 1, dtype=jnp.float32).reshape(s)
  for md in (2, 4, 12):
    for bs in (0, 2, 3, 4):
      cases += 1
      opts = reshaper.Options(md, bs)
      try:
        sh = reshaper._derive_shapes(opts, x)
        m = reshaper.merge(opts)
        u = reshaper.unmerge(opts)
        y, _ = m.update(x, m.init(x), x)
        z, _ = u.update(y, u.init(x), x)
      except Exception as e:  # pylint: disable=broad-except
        add("reshaper", [list(s), md, bs], f"raised {type(e).__name__}: {e}")
        continue
      if z.shape != x.shape or not bool(jnp.all(z == x)):
        add("reshaper.unmerge(merge(x))", [list(s), md, bs], "round trip changed the tensor")
      if list(y.shape) != list(sh.padded_shape):
        add("reshaper.merge", [list(s), md, bs], "result does not have the padded shape")
      if float(jnp.sum(y)) != float(jnp.sum(x)):
        add("reshaper.merge", [list(s), md, bs], "padding is not zero / values lost")
      for mm, pp in zip(sh.merged_shape, sh.padded_shape):
        if pp < mm or (bs and pp >= mm + bs) or (bs and mm >= bs and pp % bs) or ((not bs or mm < bs) and pp != mm):
          add("reshaper._derive_shapes", [list(s), md, bs], f"merged {sh.merged_shape} padded {sh.padded_shape}")

# tearfree shampoo blockify round trip
for bs in (2, 3):
  for s in shapes(4 if tier != "quick" else 3, (2, bs, 2 * bs, 3 * bs) if bs > 2 else (2, 4, 6)):
    if any(d == 1 for d in s) or sum(d >= bs for d in s) > 2 or any(d % bs for d in s if d >= bs):
      continue
    cases += 1
    n = int(np.prod(s)) if s else 1
    x = jnp.arange(n, dtype=jnp.float32).reshape(s)
    opts = tshampoo.Options(block_size=bs)
    try:
      meta = tshampoo._blocks_metadata(opts, x.shape, "p")
      y = tshampoo._blockify(x, meta)
      z = tshampoo._deblockify(y, meta)
    except Exception as e:  # pylint: disable=broad-except
      add("shampoo._blockify", [list(s), bs], f"raised {type(e).__name__}: {e}")
      continue
    if z.shape != x.shape or not bool(jnp.all(z == x)):
      add("shampoo._deblockify(_blockify(x))", [list(s), bs], "round trip changed the tensor")
    if meta.num_blocks * int(np.prod(meta.block_sizes)) != n:
      add("shampoo._blocks_metadata", [list(s), bs], "num_blocks*prod(block_sizes) != size")
    # each block is a contiguous box
    yb = np.moveaxis(np.asarray(y), meta.blocks_axis, 0)
    xs = np.asarray(x)
    grids = [range(0, d, min(d, bs)) if d >= bs else [0] for d in s]
    boxes = []
    for corner in itertools.product(*grids):
      sl = tuple(slice(c, c + (bs if d >= bs else d)) for c, d in zip(corner, s))
      boxes.append(xs[sl])
    if len(boxes) != yb.shape[0] or any(not np.array_equal(a, b) for a, b in zip(boxes, yb)):
      add("shampoo._blockify", [list(s), bs], "blocks are not the contiguous boxes in row-major block order")

print(json.dumps({"cases": cases, "violations": viol,
                  "bound": f"tier={tier}: shapes of rank<=4 (merge), <=3 (partition/reshaper), dims from a small pool, block sizes 1..7"}))
