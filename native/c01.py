"""Native oracle for C01 (bounded, seeded): both inverse-root routines on PSD matrices of size 1..N, exponents 1..8,
paddings: finite symmetric result, exact zeros on padding rows/columns, all-padding gives zero, and whenever the reported
error is below 0.1 the residual max|X^p (A + dI) - I| does not exceed it by more than a conditioning-proportional slack."""
import json
import os
import sys

import jax
jax.config.update("jax_enable_x64", True)
import jax.numpy as jnp
import numpy as np

from precondition import distributed_shampoo as ds

tier = sys.argv[1] if len(sys.argv) > 1 else "quick"
seed = int(os.environ.get("VERIF_SEED", "0"))
rng = np.random.RandomState(seed + 51)
viol, cases = [], 0


def add(fn, inp, what):
  if len(viol) < 10:
    viol.append({"function": fn, "input": inp, "what": what})


sizes = (1, 2, 3, 5, 8) if tier == "quick" else (1, 2, 3, 4, 5, 8, 12, 16)
ps_ = (1, 2, 4) if tier == "quick" else (1, 2, 3, 4, 6, 8)
for n in sizes:
  for p in ps_:
    for pad in (0, 2):
      for eigh in (False, True):
        for rel in (True, False):
          cases += 1
          q, _ = np.linalg.qr(rng.randn(n, n))
          ev = 10.0 ** rng.uniform(-3, 1, size=n)
          A = (q * ev) @ q.T
          N = n + pad
          Ap = np.zeros((N, N))
          Ap[:n, :n] = A
          inp = [n, p, pad, eigh, rel]
          try:
            X, met = ds.matrix_inverse_pth_root(jnp.asarray(Ap), p, ridge_epsilon=1e-6, relative_matrix_epsilon=rel,
                                                padding_start=(n if pad else None), eigh=eigh)
          except Exception as e:  # pylint: disable=broad-except
            add("matrix_inverse_pth_root", inp, f"raised {type(e).__name__}: {str(e)[:150]}")
            continue
          X = np.asarray(X, np.float64)
          err = float(met.inverse_pth_root_errors)
          if not np.all(np.isfinite(X)):
            add("matrix_inverse_pth_root", inp, "result not finite")
            continue
          if pad and (np.any(X[n:, :] != 0) or np.any(X[:, n:] != 0)):
            add("matrix_inverse_pth_root", inp, "padding rows/columns of the result are not exactly zero")
          if np.max(np.abs(X - X.T)) > 1e-6 * (np.max(np.abs(X)) + 1e-30):
            add("matrix_inverse_pth_root", inp, "result not symmetric")
          if not eigh and err < 0.1 and n > 1:
            d = 1e-6 * (max(float(met.max_eigen_value), 1e-25) if rel else 1.0) * 10.0 ** max(float(met.total_retries) - 1, 0)
            R = np.linalg.matrix_power(X[:n, :n], p) @ (A + d * np.eye(n)) - np.eye(n)
            cond = (ev.max() + d) / (ev.min() + d)
            if np.max(np.abs(R)) > err + 1e-9 * cond + 1e-6:
              add("matrix_inverse_pth_root", inp, f"residual {np.max(np.abs(R)):.3g} exceeds the reported error {err:.3g}")
# the largest-eigenvalue estimate never exceeds the true largest eigenvalue (well-separated and clustered spectra)
for n in (2, 4, 8):
  for scale in (1.0, 1e-4, 1e3):
    for spectrum in ("separated", "clustered-1e-2", "clustered-1e-3", "rank-1"):
      cases += 1
      if spectrum == "separated":
        ev = scale * 0.5 ** np.arange(n)
      elif spectrum == "rank-1":
        ev = np.concatenate([[scale], np.zeros(n - 1)])
      else:
        ev = scale * (1.0 - float(spectrum.split("-", 1)[1]) * np.arange(n))
      q, _ = np.linalg.qr(rng.randn(n, n))
      A32 = np.asarray((q * ev) @ q.T, np.float32)
      A32 = (A32 + A32.T) / 2
      lam = float(np.linalg.eigvalsh(A32.astype(np.float64))[-1])
      _, s_out = ds.power_iteration(jnp.asarray(A32))
      if float(s_out) > lam * (1 + 1e-5) + 1e-30:
        add("power_iteration", [n, scale, spectrum], f"estimate {float(s_out):.7g} exceeds the true largest eigenvalue {lam:.7g}")
      _, met = ds.matrix_inverse_pth_root(jnp.asarray(A32), 4, ridge_epsilon=1e-6)
      if float(met.max_eigen_value) > lam * (1 + 1e-5) + 1e-30:
        add("matrix_inverse_pth_root", [n, scale, spectrum], f"max_eigen_value {float(met.max_eigen_value):.7g} exceeds lambda_max {lam:.7g}")

# eigh route on PADDED, RANK-DEFICIENT inputs: exact zeros on padding, and an accepted figure is honest
for n, rk, pad, p_ in [(4, 1, 2, 1), (5, 3, 2, 2), (6, 4, 3, 4), (4, 3, 1, 2)]:
  for rel in (True, False):
    cases += 1
    Gm = rng.randint(-3, 4, size=(n, rk)).astype(np.float64)
    A = Gm @ Gm.T
    N = n + pad
    Ap = np.zeros((N, N))
    Ap[:n, :n] = A
    X, met = ds.matrix_inverse_pth_root(jnp.asarray(Ap, jnp.float32), p_, ridge_epsilon=1e-3, relative_matrix_epsilon=rel,
                                        padding_start=n, eigh=True)
    X = np.asarray(X, np.float64)
    err = float(met.inverse_pth_root_errors)
    inp = ["eigh padded rank-deficient", n, rk, pad, p_, rel]
    if not np.all(np.isfinite(X)):
      add("matrix_inverse_pth_root_eigh", inp, "result not finite")
      continue
    if np.any(X[n:, :] != 0) or np.any(X[:, n:] != 0):
      add("matrix_inverse_pth_root_eigh", inp, f"padding rows/columns of the result are not exactly zero (max |entry| {np.max(np.abs(X[n:, :])):.3g})")
      continue
    lam = float(np.linalg.eigvalsh(A)[-1])
    d = 1e-3 * (max(lam, 1e-6) if rel else 1.0)
    if err < 0.1:
      R = np.linalg.matrix_power(X[:n, :n], p_) @ (A + d * np.eye(n)) - np.eye(n)
      if np.max(np.abs(R)) > err + 0.05:
        add("matrix_inverse_pth_root_eigh", inp, f"residual {np.max(np.abs(R)):.3g} far above the reported error {err:.3g}")

# all padding
cases += 1
X, met = ds.matrix_inverse_pth_root(jnp.eye(4), 4, padding_start=0)
if np.any(np.asarray(X) != 0) or float(met.inverse_pth_root_errors) != 0:
  add("matrix_inverse_pth_root", ["all padding"], "all-padding matrix does not give the zero matrix with error 0")

print(json.dumps({"cases": cases, "violations": viol,
                  "bound": f"tier={tier}: sizes {list(sizes)} x p {list(ps_)} x padding {{0,2}} x {{Newton, eigh}} x ridge mode, seed {seed}"}))
