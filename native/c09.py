"""Native oracle for C09 (bounded, seeded): iterates the FD step functions over gradient histories and
compares with the exact b-discounted covariance: l >= 0, t >= 0, bracket V diag(l) V' <= C <= V diag(l) V' + tI,
t' = b t + r, zero-gradient step discounts sketch and escaped mass by b, rank <= k histories give t = 0,
stored inverse roots = (l + t + eps)^(-1/p).  Tearfree Sketchy (_update_axis) and the DS FD root."""
import json
import os
import sys

import jax
import jax.numpy as jnp
import numpy as np

from precondition import distributed_shampoo as ds
from precondition.tearfree import sketchy

tier = sys.argv[1] if len(sys.argv) > 1 else "quick"
seed = int(os.environ.get("VERIF_SEED", "0"))
rng = np.random.RandomState(seed + 6)
viol, cases = [], 0


def add(fn, inp, what):
  if len(viol) < 10:
    viol.append({"function": fn, "input": inp, "what": what})


def psd_leq(A, B, tol):
  return np.linalg.eigvalsh(B - A).min() >= -tol


# ---- Tearfree Sketchy, matrix parameter, axis 0
for d, m, k, b in [(5, 4, 2, 0.25), (6, 3, 3, 0.9), (4, 5, 2, 1.0), (5, 2, 4, 0.5)]:
  cases += 1
  opts = sketchy.Options(epsilon=1e-7, rank=k, relative_epsilon=False, second_moment_decay=b, update_freq=1)
  kk = min(d, k)
  st = sketchy._AxisState(jnp.zeros((d, kk)), jnp.zeros((kk,)), jnp.zeros((kk,)), jnp.zeros(()), jnp.zeros(()),
                          None, None, None, None)
  C = np.zeros((d, d))
  T_ = 6 if tier == "quick" else 15
  for t in range(T_):
    if t == 2:
      g = np.zeros((d, m), np.float32)
    elif t < 2:
      base = rng.randn(1, m)
      g = (rng.randn(d, 1) @ base).astype(np.float32)   # rank one
    else:
      g = (rng.randn(d, m) * 10.0 ** rng.randint(-1, 2)).astype(np.float32)
    prev_tail = float(st.tail)
    prev_l = np.asarray(st.eigvals, np.float64) ** 2
    st = sketchy._update_axis(opts, 0, (), jnp.asarray(g), st)
    C = b * C + g.astype(np.float64) @ g.astype(np.float64).T
    V = np.asarray(st.eigvecs, np.float64)
    l = np.asarray(st.eigvals, np.float64) ** 2
    tl = float(st.tail)
    S = V @ np.diag(l) @ V.T
    scale = np.linalg.norm(C) + 1e-12
    if l.min() < 0 or tl < 0:
      add("sketchy._update_axis", [d, m, k, b, t], "negative eigenvalue or escaped mass")
    if not psd_leq(S, C, 1e-4 * scale) or not psd_leq(C, S + tl * np.eye(d), 1e-4 * scale):
      add("sketchy._update_axis", [d, m, k, b, t],
          f"bracket violated: min eig(C-S)={np.linalg.eigvalsh(C - S).min():.3g}, min eig(S+tI-C)={np.linalg.eigvalsh(S + tl * np.eye(d) - C).min():.3g}, tail={tl:.4g}")
      break
    if t == 2 and abs(tl - b * prev_tail) > 1e-5 * (abs(prev_tail) + 1e-12):
      add("sketchy._update_axis", [d, m, k, b, t], f"zero-gradient step: tail {prev_tail} -> {tl}, expected {b * prev_tail}")
      break
    if t < 2 and k >= 2 and tl > 1e-5 * scale:
      add("sketchy._update_axis", [d, m, k, b, t], f"rank <= k history not tracked exactly: tail {tl}")
    p = 2 * 2
    inv = np.asarray(st.inv_eigvals, np.float64)
    want = np.where(l > 0, (l + tl + 1e-7) ** (-1.0 / p), 0.0)
    if np.max(np.abs(inv - want)) > 1e-3 * (np.max(np.abs(want)) + 1e-12):
      add("sketchy._update_axis", [d, m, k, b, t], "stored inverse roots != (l + t + eps)^(-1/p)")

# ---- Distributed Shampoo FD root
for n, r, b in [(7, 2, 0.5), (8, 3, 1.0), (6, 1, 0.9)]:
  cases += 1
  p = 4
  prev = ds._fd_low_rank_pack(jnp.zeros((n, r)), jnp.zeros((r,)), jnp.zeros((r,)), 0.0, 0.0, True, r)
  C = np.zeros((n, n))
  for t in range(5):
    g = np.zeros((n, n), np.float32) if t == 2 else (rng.randn(n, 3) * (10.0 ** rng.randint(-1, 2))).astype(np.float32)
    if t == 2:
      R = jnp.asarray(g)
      GG = np.zeros((n, n))
    else:
      R = ds.frequent_directions_update(None, jnp.asarray(g), 0, 0.0, 0.0)
      GG = g.astype(np.float64) @ g.astype(np.float64).T
    V0, l0, _, _, t0, _ = ds._fd_low_rank_unpack(prev, r)
    val, _ = ds._fd_update_root(R, p, rank=r, ridge_epsilon=0.0, relative_matrix_epsilon=False, decay=b,
                                padding_start=n, prev=prev)
    C = b * C + GG
    V, l, inv, const, tl, hz = ds._fd_low_rank_unpack(val, r)
    V, l, tl = np.asarray(V, np.float64), np.asarray(l, np.float64), float(tl)
    S = V @ np.diag(l) @ V.T
    scale = np.linalg.norm(C) + 1e-12
    if l.min() < 0 or tl < 0:
      add("_fd_update_root", [n, r, b, t], "negative eigenvalue or escaped mass")
    if not psd_leq(S, C, 1e-4 * scale) or not psd_leq(C, S + tl * np.eye(n), 1e-4 * scale):
      add("_fd_update_root", [n, r, b, t], "bracket violated")
      break
    if t == 2 and abs(tl - b * float(t0)) > 1e-5 * (abs(float(t0)) + 1e-12):
      add("_fd_update_root", [n, r, b, t], f"zero-gradient step: tail {float(t0)} -> {tl}, expected {b * float(t0)}")
    want = np.where(l > 0, (l + tl) ** (-1.0 / p), 0.0)
    if np.max(np.abs(np.asarray(inv, np.float64) - want)) > 1e-3 * (np.max(np.abs(want)) + 1e-12):
      add("_fd_update_root", [n, r, b, t], "stored inverse roots != (l + t)^(-1/p)")
    prev = val

# wide and rank-deficient gradient blocks: R R' = G G' and R finite
for shape, kind in [((6, 9), "rank-1"), ((6, 9), "zero-row"), ((5, 5), "rank-2"), ((4, 3, 5), "rank-1"), ((6, 9), "full")]:
  cases += 1
  if kind == "rank-1":
    a = rng.randn(shape[0]).astype(np.float32)
    g = np.multiply.outer(a, rng.randn(*shape[1:]).astype(np.float32))
  elif kind == "rank-2":
    g = (rng.randn(shape[0], 2) @ rng.randn(2, shape[1])).astype(np.float32)
  else:
    g = rng.randn(*shape).astype(np.float32)
    if kind == "zero-row":
      g[2] = 0
  R = np.asarray(ds.frequent_directions_update(None, jnp.asarray(g), 0, 0.0, 0.0), np.float64)
  x = g.reshape(shape[0], -1).astype(np.float64)
  if not np.all(np.isfinite(R)):
    add("frequent_directions_update", [list(shape), kind], "factor R is not finite for a finite gradient block")
  elif np.max(np.abs(R @ R.T - x @ x.T)) > 1e-4 * (np.max(np.abs(x @ x.T)) + 1e-12):
    add("frequent_directions_update", [list(shape), kind], "R R' != G G'")

print(json.dumps({"cases": cases, "violations": viol,
                  "bound": f"tier={tier}: 4 Sketchy and 3 DS-FD configurations x histories of 5..15 steps (rank-one, zero, scale-varying gradients), seed {seed}"}))
