"""Native oracle for C03 (bounded, seeded): fault injection through the public API. After every update each stored
preconditioner is bit-for-bit the previous one or a new root whose reported error is finite and below the
threshold; stored preconditioners stay finite.  Replicated (Newton / eigh), quantized is skipped on one device,
sharded (shard_optimizer_states=True, one declared device)."""
import json
import os
import sys

import numpy as np
import jax
import jax.numpy as jnp

from jax.sharding import Mesh, PartitionSpec as P
from precondition import distributed_shampoo as ds
mesh = Mesh(np.array(jax.devices()[:1]), ("x",))

tier = sys.argv[1] if len(sys.argv) > 1 else "quick"
seed = int(os.environ.get("VERIF_SEED", "0"))
viol, cases = [], 0


def add(fn, inp, what):
  if len(viol) < 10:
    viol.append({"function": fn, "input": inp, "what": what})


def faults(shape, rng):
  g = rng.randn(*shape).astype(np.float32)
  yield "normal", g
  gn = g.copy(); gn[0, 0] = np.nan
  yield "nan", gn
  gi = g.copy(); gi[1, 1] = np.inf
  yield "inf", gi
  yield "huge", g * 1e20
  yield "zero", np.zeros(shape, np.float32)
  yield "tiny", g * 1e-20
  yield "normal2", rng.randn(*shape).astype(np.float32)


def precs(state, sharded):
  if sharded:
    return [np.asarray(state.stats.global_stats.preconditioners)]
  out = []
  for st in jax.tree.leaves(state.stats, is_leaf=lambda x: isinstance(x, ds.ParameterStats)):
    out.extend(np.asarray(p) for p in st.preconditioners)
  return out


def errs(state, sharded):
  if sharded:
    ls = jax.tree.leaves(state.stats.local_stats, is_leaf=lambda x: isinstance(x, ds.LocalShardedParameterStats))
    return np.concatenate([np.asarray(l.training_metrics.inverse_pth_root_errors).ravel() for l in ls])
  out = []
  for st in jax.tree.leaves(state.stats, is_leaf=lambda x: isinstance(x, ds.ParameterStats)):
    out.append(np.asarray(st.training_metrics.inverse_pth_root_errors).ravel())
  return np.concatenate(out)


rng = np.random.RandomState(seed + 13)
shape = (4, 3)
for sharded in (False, True):
  jax.clear_caches()
  for thr in (0.1, 0.0, 1e30):
    for eigh, pcs in ((False, 1), (True, 1), (False, 2)):
      cases += 1
      kw = dict(shard_optimizer_states=True, num_devices_for_pjit=1, statistics_partition_spec=P("x", None, None),
                preconditioner_partition_spec=P("x", None, None)) if sharded else {}
      name = f"{'sharded' if sharded else 'replicated'} thr={thr} eigh={eigh} preconditioning_compute_steps={pcs}"
      try:
        opt = ds.distributed_shampoo(0.1, block_size=4, inverse_failure_threshold=thr, eigh=eigh,
                                     start_preconditioning_step=1, matrix_epsilon=1e-6,
                                     preconditioning_compute_steps=pcs, **kw)
        params = {"w": jnp.zeros(shape, jnp.float32)}
        st = opt.init(params)
        upd = opt.update
        if sharded:
          with mesh:
            st = st.init_fn(params)
          upd = jax.jit(opt.update)
        prev = precs(st, sharded)
        for t_, (label, g) in enumerate(faults(shape, rng)):
          with mesh:
            u, st = upd({"w": jnp.asarray(g)}, st, params)
          cur = precs(st, sharded)
          if not sharded and t_ % pcs != 0 and any(a.tobytes() != b.tobytes() for a, b in zip(prev, cur)):
            add("distributed_shampoo.update", [name, label, f"step {t_}"], "preconditioner replaced on a step that does not compute roots (not a verified root)")
          e = errs(st, sharded)
          for k, (a, b) in enumerate(zip(prev, cur)):
            if not np.all(np.isfinite(b)):
              add("distributed_shampoo.update", [name, label], "a stored preconditioner is not finite")
              raise StopIteration
          if sharded:
            a, b = prev[0], cur[0]
            for k in range(a.shape[0]):
              if a[k].tobytes() != b[k].tobytes() and k < len(e) and not (np.isfinite(e[k]) and e[k] < thr):
                add("distributed_shampoo.update", [name, label, k], f"preconditioner replaced although error={e[k]} thr={thr}")
          else:
            for k, (a, b) in enumerate(zip(prev, cur)):
              if a.tobytes() != b.tobytes() and not (np.isfinite(e[k]) and e[k] < thr):
                add("distributed_shampoo.update", [name, label, k], f"preconditioner replaced although error={e[k]} thr={thr}")
          prev = cur
      except StopIteration:
        pass
      except Exception as ex:  # pylint: disable=broad-except
        add("distributed_shampoo.update", [name], f"raised {type(ex).__name__}: {str(ex)[:200]}")

# singular (rank-deficient) statistics with finite gradients of moderate magnitude: a thin parameter accumulates one
# outer product per step, so its statistics stay singular; absolute and tiny relative ridge.
for eigh in (False, True):
  for rel, eps in ((False, 1e-6), (True, 1e-8), (True, 1e-6), (True, 0.0)):
    cases += 1
    name = f"singular-statistics eigh={eigh} relative_eps={rel} eps={eps}"
    try:
      r2 = np.random.RandomState(seed)
      params = {"a": jnp.asarray(r2.randn(16, 2).astype(np.float32)), "b": jnp.asarray(r2.randn(24).astype(np.float32))}
      opt = ds.distributed_shampoo(0.1, block_size=32, eigh=eigh, inverse_failure_threshold=0.1, preconditioning_compute_steps=1,
                                   relative_matrix_epsilon=rel, matrix_epsilon=eps)
      st = opt.init(params)
      upd = jax.jit(opt.update)
      prev = precs(st, False)
      for step in range(6):
        scale = [1.0, 3.0, 10.0, 30.0, 100.0, 1000.0][step]
        g = jax.tree.map(lambda p: jnp.asarray(scale * r2.randn(*p.shape).astype(np.float32)), params)
        u, st = upd(g, st, params)
        cur, e = precs(st, False), errs(st, False)
        for k, (a, b) in enumerate(zip(prev, cur)):
          if not np.all(np.isfinite(b)):
            add("distributed_shampoo.update", [name, f"step {step}", k], f"a stored preconditioner is not finite (reported error {e[k]})")
            raise StopIteration
          if a.tobytes() != b.tobytes() and not (np.isfinite(e[k]) and e[k] < 0.1):
            add("distributed_shampoo.update", [name, f"step {step}", k], f"preconditioner replaced although error={e[k]}")
        if not all(np.all(np.isfinite(np.asarray(x))) for x in jax.tree.leaves(u)):
          add("distributed_shampoo.update", [name, f"step {step}"], f"update not finite for a finite gradient of scale {scale}")
          raise StopIteration
        prev = cur
    except StopIteration:
      pass
    except Exception as ex:  # pylint: disable=broad-except
      add("distributed_shampoo.update", [name], f"raised {type(ex).__name__}: {str(ex)[:200]}")

print(json.dumps({"cases": cases, "violations": viol,
                  "bound": f"tier={tier}: {{replicated, sharded}} x 3 thresholds x {{Newton, eigh}} x a 7-step history with NaN/Inf/huge/zero/tiny gradients; {{Newton, eigh}} x 4 ridge settings (incl. 0) x 6 steps of singular statistics; seed {seed}"}))
