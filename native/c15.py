"""Native oracle for C15 (bounded, seeded): tearfree(lr, options).update against an independent float64 reference
(Shampoo: per-block decayed covariances, inverse (2*rank)-th roots by eigh with the 1e-6 relative cut-off, grafting,
momentum / Nesterov / ema, weight decay before/after, lr constant/scheduled) and exact linearity in the learning rate."""
import json
import os
import sys

import jax
jax.config.update("jax_enable_x64", True)
import jax.numpy as jnp
import numpy as np

from precondition.tearfree import optimizer as tf_opt, second_order, shampoo as tsh, grafting, momentum

tier = sys.argv[1] if len(sys.argv) > 1 else "quick"
seed = int(os.environ.get("VERIF_SEED", "0"))
rng = np.random.RandomState(seed + 41)
viol, cases = [], 0


def add(inp, what):
  if len(viol) < 10:
    viol.append({"function": "tearfree.update", "input": inp, "what": what})


def root(C, p):
  w, v = np.linalg.eigh(C)
  mask = w <= 1e-6 * w.max()
  h = np.where(mask, 0.0, np.where(mask, 1.0, w) ** (-0.5 / p))
  return (v * h) @ (v * h).T


def reference(cfg, shape, B, grads, theta):
  rank = len(shape)
  nb = [max(1, d // B) if d >= B else 1 for d in shape]
  bs = [min(d, B) for d in shape]
  import itertools
  blocks = list(itertools.product(*[range(n) for n in nb]))
  C = {(b, a): np.zeros((bs[a], bs[a])) for b in blocks for a in range(rank)}
  trace = np.zeros(shape)
  outs = []
  for t, g in enumerate(grads):
    pg = np.zeros(shape)
    for b in blocks:
      sl = tuple(slice(i * s, (i + 1) * s) for i, s in zip(b, bs))
      gb = g[sl]
      R = []
      for a in range(rank):
        others = [i for i in range(rank) if i != a]
        gg = np.tensordot(gb, gb, axes=(others, others))
        C[(b, a)] = C[(b, a)] * cfg["decay"] + gg * (1 - cfg["decay"]) if cfg["decay"] != 1.0 else C[(b, a)] + gg
        R.append(root(C[(b, a)], 2 * rank))
      x = gb
      for a in range(rank):
        x = np.moveaxis(np.tensordot(R[a], x, axes=([1], [a])), 0, a)
      pg[sl] = x
    if cfg["graft"]:
      nbase = np.linalg.norm(pg)
      og = pg * (np.linalg.norm(g) / nbase if nbase > 0 else 0.0) if t >= cfg["start"] else g
    else:
      og = pg
    u = og
    if cfg["wd"] > 0 and not cfg["wd_after"]:
      u = u + cfg["wd"] * theta
    if cfg["beta"]:
      u1 = (1 - cfg["beta"]) * u if cfg["ema"] else u
      trace = u1 + cfg["beta"] * trace
      u = u1 + cfg["beta"] * trace if cfg["nesterov"] else trace
    if cfg["wd"] > 0 and cfg["wd_after"]:
      u = u + cfg["wd"] * theta
    lr = cfg["lr"] / (1.0 + t) if cfg["sched"] else cfg["lr"]
    outs.append(-lr * u)
  return outs


n_cfg = 12 if tier == "quick" else 120
shapes = [(4, 3), (8, 2), (6,)]
for ci in range(n_cfg):
  shape = shapes[ci % 2]
  B = 4
  cfg = dict(decay=float(rng.choice([1.0, 0.9, 0.5])), graft=bool(rng.randint(2)), start=int(rng.choice([0, 2])),
             wd=float(rng.choice([0.0, 0.1])), wd_after=bool(rng.randint(2)), beta=float(rng.choice([0.0, 0.9])),
             ema=bool(rng.randint(2)), nesterov=bool(rng.randint(2)), lr=0.3, sched=bool(rng.randint(2)))
  cases += 1
  grads = [rng.randn(*shape) for _ in range(4)]
  theta = rng.randn(*shape)

  def make(lr_scale=1.0):
    lr = (lambda t: lr_scale * cfg["lr"] / (1.0 + t)) if cfg["sched"] else lr_scale * cfg["lr"]
    return tf_opt.tearfree(lr, tf_opt.TearfreeOptions(
        grafting_options=grafting.Options(grafting_type=grafting.GraftingType.SGD if cfg["graft"] else grafting.GraftingType.NONE,
                                          second_moment_decay=0.0, start_preconditioning_step=cfg["start"],
                                          skip_preconditioning_rank1=False),
        second_order_options=second_order.Options(merge_dims=2, shampoo_options=tsh.Options(block_size=B, second_moment_decay=cfg["decay"])),
        momentum_options=momentum.Options(ema=cfg["ema"], nesterov=cfg["nesterov"], momentum_decay=cfg["beta"],
                                          weight_decay=cfg["wd"], weight_decay_after_momentum=cfg["wd_after"])))

  try:
    res = {}
    for scale in (1.0, 3.0):
      tx = make(scale)
      p = jnp.asarray(theta)
      st = tx.init(p)
      outs = []
      for g in grads:
        u, st = tx.update(jnp.asarray(g), st, p)
        outs.append(np.asarray(u))
      res[scale] = outs
  except Exception as e:  # pylint: disable=broad-except
    add({k: str(v) for k, v in cfg.items()}, f"raised {type(e).__name__}: {str(e)[:200]}")
    continue
  want = reference(cfg, shape, B, grads, theta)
  for t, (a, b) in enumerate(zip(res[1.0], want)):
    err = float(np.max(np.abs(a - b)) / (np.max(np.abs(b)) + 1e-12))
    if not np.isfinite(err) or err > 1e-6:
      add({k: str(v) for k, v in cfg.items()} | {"shape": list(shape), "step": t}, f"differs from the float64 reference by relative {err:.3g}")
      break
  for t, (a, b) in enumerate(zip(res[1.0], res[3.0])):
    if float(np.max(np.abs(3.0 * a - b))) > 1e-12 * (np.max(np.abs(b)) + 1e-30):
      add({k: str(v) for k, v in cfg.items()} | {"step": t}, "update is not linear in the learning rate")
      break

print(json.dumps({"cases": cases, "violations": viol,
                  "bound": f"tier={tier}: {n_cfg} seeded Tearfree-Shampoo configurations x 2 shapes x 4 steps vs float64 reference (tol 1e-6) + lr linearity, seed {seed}"}))
