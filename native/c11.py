"""Native oracle for C11 (bounded, seeded + boundary bit patterns): quantize/dequantize through
QuantizedValue.from_float_value / to_float. Checks no wrap (stored integers never the most negative value),
half-bucket error, exact zeros / diagonal, idempotence of the integers."""
import json
import os
import sys

import numpy as np
import jax.numpy as jnp

from precondition.quantization_utils import QuantizedValue

tier = sys.argv[1] if len(sys.argv) > 1 else "quick"
seed = int(os.environ.get("VERIF_SEED", "0"))
rng = np.random.RandomState(seed + 8)
viol, cases = [], 0


def add(inp, what):
  if len(viol) < 10:
    viol.append({"function": "QuantizedValue.quantize/to_float", "input": inp, "what": what})


def check(x, dt, name):
  global cases
  cases += 1
  N = 127 if dt == jnp.int8 else 32767
  qv = QuantizedValue.from_float_value(jnp.asarray(x), dt)
  q = np.asarray(qv.quantized)
  if q.min() < -N:
    add([name, str(dt.__name__)], f"stored integer {q.min()} (wrap-around)")
    return
  deq = np.asarray(qv.to_float(), np.float64)
  x64 = np.asarray(x, np.float64)
  if not np.all(np.isfinite(deq)):
    add([name, str(dt.__name__), [float(v) for v in np.asarray(x).ravel()[:4]]],
        "to_float() is not finite for a finite input (column max-abs within one rounding of FLT_MAX overflows N*bucket)")
    return
  b = np.asarray(qv.bucket_size, np.float64)
  tol = b / 2 * (1 + 1e-6) + (np.abs(x64) + N * b) * 2.0 ** -22 + N * 2.0 ** -126
  if np.any(np.abs(x64 - deq) > tol):
    add([name, str(dt.__name__)], f"round-trip error {float(np.max(np.abs(x64 - deq) - tol))} above half a bucket")
  if np.any((x64 == 0) & (deq != 0)):
    add([name, str(dt.__name__)], "a zero is not reproduced exactly")
  qv2 = QuantizedValue.from_float_value(qv.to_float(), dt)
  if not np.array_equal(np.asarray(qv2.quantized), q):
    add([name, str(dt.__name__)], "re-quantizing the dequantized value changes the integers")


for dt in (jnp.int8, jnp.int16):
  n_rand = 40 if tier == "quick" else 400
  for k in range(n_rand):
    shape = [(5,), (4, 3), (3, 2, 2)][k % 3]
    scale = 10.0 ** rng.uniform(-38, 37)
    x = (rng.randn(*shape) * scale).astype(np.float32)
    if k % 5 == 0:
      x[rng.randint(shape[0])] = 0
    check(x, dt, f"random scale {scale:.2g}")
  check(np.array([[3.93e-42], [1.31e-42]], np.float32), dt, "subnormal column")
  check(np.array([[1e-38, 0.0], [5e-39, 0.0]], np.float32), dt, "near-underflow / zero column")
  check(np.array([[1.0, -1.0], [1.0, 1.0]], np.float32), dt, "constant columns")
  check(np.array([[3.4028235e38], [-3.3938814e38]], np.float32), dt, "near FLT_MAX")
  m = np.array([[2.0, 1e-3], [1e-3, 5.0]], np.float32)
  qv = QuantizedValue.from_float_value(jnp.asarray(m), dt, True)
  cases += 1
  if not np.array_equal(np.asarray(qv.diagonal), np.diag(m)) or not np.array_equal(np.diag(np.asarray(qv.to_float())), np.diag(m)):
    add(["diagonal", str(dt.__name__)], "extracted diagonal is not reproduced exactly")

  # extract_diagonal=True: symmetric G G' with uneven column scales: off-diagonal round trip within half of ITS column's
  # bucket, re-quantization keeps the integers
  for trial in range(3):
    cases += 1
    G = rng.randn(5, 3).astype(np.float32)
    G[0] *= 100.0
    S = (G @ G.T).astype(np.float32)
    qv = QuantizedValue.from_float_value(jnp.asarray(S), dt, True)
    deq = np.asarray(qv.to_float(), np.float64)
    b = np.asarray(qv.bucket_size, np.float64)[None, :]
    Nq = 127 if dt == jnp.int8 else 32767
    off = ~np.eye(5, dtype=bool)
    tol = b / 2 * (1 + 1e-6) + (np.abs(S.astype(np.float64)) + Nq * b) * 2.0 ** -22
    if np.any((np.abs(S.astype(np.float64) - deq) > tol) & off):
      add(["extract_diagonal G G'", str(dt.__name__), trial],
          f"off-diagonal round-trip error {float(np.max((np.abs(S - deq) / b)[off])):.3g} buckets (> 1/2)")
    qv2 = QuantizedValue.from_float_value(qv.to_float(), dt, True)
    if not np.array_equal(np.asarray(qv2.quantized), np.asarray(qv.quantized)):
      add(["extract_diagonal G G'", str(dt.__name__), trial], "re-quantizing the dequantized value changes the integers")

print(json.dumps({"cases": cases, "violations": viol,
                  "bound": f"tier={tier}: int8/int16 x seeded random tensors of rank 1..3 over 75 decades + boundary columns, seed {seed}"}))
