"""Native resume harness for C14 (B5, bounded): run an optimizer 2k.. steps uninterrupted, and k steps +
flax.serialization.to_bytes/from_bytes into a FRESHLY constructed optimizer + the remaining steps; every
update after the interruption must be bit-identical.  Optimizers: DS {full, int8 momenta, compressed, FD},
SM3, Tearfree {Shampoo, Sketchy}; interruption points and eager / jit per tier."""
import json
import os
import sys

import numpy as np
import jax
import jax.numpy as jnp
from flax import serialization

from precondition import distributed_shampoo as ds
from precondition import sm3
from precondition.tearfree import optimizer as tf_opt
from precondition.tearfree import second_order, shampoo as tf_shampoo, sketchy as tf_sketchy, grafting, momentum

tier = sys.argv[1] if len(sys.argv) > 1 else "quick"
seed = int(os.environ.get("VERIF_SEED", "0"))
viol, cases = [], 0


def add(fn, inp, what):
  if len(viol) < 12:
    viol.append({"function": fn, "input": inp, "what": what})


def tf(second_order_type, stats_freq=1, sk_freq=1):
  so = second_order.Options(
      merge_dims=16, second_order_type=second_order_type,
      shampoo_options=tf_shampoo.Options(block_size=4, update_preconditioners_freq=2, update_statistics_freq=stats_freq),
      sketchy_options=tf_sketchy.Options(rank=2, update_freq=sk_freq))
  return lambda: tf_opt.tearfree(0.1, tf_opt.TearfreeOptions(
      grafting_options=grafting.Options(start_preconditioning_step=1, skip_preconditioning_rank1=True),
      second_order_options=so, momentum_options=momentum.Options()))


MAKERS = {
    "ds_full": lambda: ds.distributed_shampoo(0.1, block_size=4, start_preconditioning_step=1, preconditioning_compute_steps=2),
    "ds_int8_momenta": lambda: ds.distributed_shampoo(0.1, block_size=4, start_preconditioning_step=1,
                                                      best_effort_memory_usage_reduction=True),
    "ds_compressed": lambda: ds.distributed_shampoo(0.1, block_size=8, start_preconditioning_step=1, compression_rank=2),
    "ds_fd": lambda: ds.distributed_shampoo(0.1, block_size=8, start_preconditioning_step=1, compression_rank=2,
                                            frequent_directions=True, reuse_preconditioner=True),
    # every conditional region (statistics / preconditioner / sketch intervals > 1) closes over or receives state leaves
    "ds_intervals": lambda: ds.distributed_shampoo(0.1, block_size=4, start_preconditioning_step=1, preconditioning_compute_steps=2,
                                                   statistics_compute_steps=2, beta2=0.99),
    "ds_compressed_intervals": lambda: ds.distributed_shampoo(0.1, block_size=8, start_preconditioning_step=1, compression_rank=2,
                                                              preconditioning_compute_steps=3, statistics_compute_steps=2),
    "ds_fd_intervals": lambda: ds.distributed_shampoo(0.1, block_size=8, start_preconditioning_step=1, compression_rank=2,
                                                      frequent_directions=True, reuse_preconditioner=True, average_grad=True,
                                                      statistics_compute_steps=2, preconditioning_compute_steps=2),
    "ds_int8_intervals": lambda: ds.distributed_shampoo(0.1, block_size=4, start_preconditioning_step=1, statistics_compute_steps=3,
                                                        best_effort_memory_usage_reduction=True, graft_type=ds.GraftingType.RMSPROP),
    "tearfree_shampoo_intervals": tf(second_order.SecondOrderType.SHAMPOO, stats_freq=2),
    "tearfree_sketchy_intervals": tf(second_order.SecondOrderType.SKETCHY, sk_freq=2),
    "ds_rmsprop_graft": lambda: ds.distributed_shampoo(0.1, block_size=4, start_preconditioning_step=2, graft_type=ds.GraftingType.RMSPROP,
                                                       beta2=0.99),
    "ds_adagrad_graft": lambda: ds.distributed_shampoo(0.1, block_size=4, start_preconditioning_step=2, graft_type=ds.GraftingType.ADAGRAD),
    "sm3": lambda: sm3.sm3(0.1),
    "tearfree_shampoo": tf(second_order.SecondOrderType.SHAMPOO),
    "tearfree_sketchy": tf(second_order.SecondOrderType.SKETCHY),
}
T_ = 6
ks = (2, 3) if tier == "quick" else (0, 1, 2, 3, 4, 5)
modes = ("eager",) if tier == "quick" else ("eager", "jit")
shapes = {"w": (8, 6), "b": (6,)}

for name, mk in MAKERS.items():
  jax.clear_caches()
  rng = np.random.RandomState(seed + 17)
  params = {k: jnp.asarray(rng.randn(*s), jnp.float32) for k, s in shapes.items()}
  grads = [{k: jnp.asarray(rng.randn(*s), jnp.float32) for k, s in shapes.items()} for _ in range(T_)]
  for mode in modes:
    try:
      opt = mk()
      upd = jax.jit(opt.update) if mode == "jit" else opt.update
      st = opt.init(params)
      ref = []
      for g in grads:
        u, st = upd(g, st, params)
        ref.append(jax.tree.map(np.asarray, u))
    except Exception as e:  # pylint: disable=broad-except
      add(name, [mode, "uninterrupted"], f"raised {type(e).__name__}: {str(e)[:200]}")
      continue
    for k in ks:
      cases += 1
      try:
        opt1 = mk()
        upd1 = jax.jit(opt1.update) if mode == "jit" else opt1.update
        st = opt1.init(params)
        for g in grads[:k]:
          _, st = upd1(g, st, params)
        blob = serialization.to_bytes(st)
        opt2 = mk()                                  # freshly constructed optimizer
        upd2 = jax.jit(opt2.update) if mode == "jit" else opt2.update
        st2 = serialization.from_bytes(opt2.init(params), blob)
        for t in range(k, T_):
          u, st2 = upd2(grads[t], st2, params)
          for leaf_a, leaf_b in zip(jax.tree.leaves(jax.tree.map(np.asarray, u)), jax.tree.leaves(ref[t])):
            if leaf_a.tobytes() != leaf_b.tobytes():
              d = float(np.max(np.abs(leaf_a.astype(np.float64) - leaf_b.astype(np.float64))))
              raise AssertionError(f"update at step {t} differs from the uninterrupted run (max abs diff {d:.3g})")
      except AssertionError as e:
        add(name, [mode, f"interrupted after step {k}"], str(e))
      except Exception as e:  # pylint: disable=broad-except
        add(name, [mode, f"interrupted after step {k}"], f"raised {type(e).__name__}: {str(e)[:200]}")

print(json.dumps({"cases": cases, "violations": viol,
                  "bound": f"tier={tier}: {len(MAKERS)} optimizer modes x interruption points {list(ks)} of a {T_}-step history x {list(modes)}, seed {seed}"}))
