"""Native oracle for C08 (bounded, seeded): optimizing a blocked tensor equals optimizing its blocks as separate
tensors whatever the relative gradient scales of the blocks; adding companion parameters does not change a
parameter's update.  Tearfree Shampoo (no grafting) and Distributed Shampoo (graft NONE)."""
import json
import os
import sys

import numpy as np
import jax
import jax.numpy as jnp

from precondition import distributed_shampoo as ds
from precondition.tearfree import shampoo as tsh

tier = sys.argv[1] if len(sys.argv) > 1 else "quick"
seed = int(os.environ.get("VERIF_SEED", "0"))
rng = np.random.RandomState(seed + 31)
viol, cases = [], 0


def add(fn, inp, what):
  if len(viol) < 10:
    viol.append({"function": fn, "input": inp, "what": what})


def rel(a, b):
  return float(np.max(np.abs(a - b)) / (np.max(np.abs(b)) + 1e-30))


B = 4
for scales in ([1.0, 1.0], [1.0, 1e3], [1e-3, 1e3], [1e3, 1e-3, 1.0]):
  cases += 1
  nb = len(scales)
  tx = tsh.apply(tsh.Options(block_size=B, second_moment_decay=1.0))
  p = jnp.zeros((nb * B, 3))
  st = tx.init(p)
  sts = [tx.init(jnp.zeros((B, 3))) for _ in range(nb)]
  for t in range(3):
    blocks = [(rng.randn(B, 3) * s).astype(np.float32) for s in scales]
    g = np.concatenate(blocks, 0)
    u, st = tx.update(jnp.asarray(g), st, p)
    u = np.asarray(u, np.float64)
    for k in range(nb):
      uk, sts[k] = tx.update(jnp.asarray(blocks[k]), sts[k], jnp.zeros((B, 3)))
      e = rel(u[k * B:(k + 1) * B], np.asarray(uk, np.float64))
      if e > 1e-3:
        add("tearfree.shampoo", [scales, t, k], f"block {k} of the blocked tensor differs from the block optimized alone by relative {e:.3g}")

# two blocked axes separated by a small axis: (2B, 3, 2B) -> 4 blocks of (B, 3, B)
for scales in ([1.0, 1.0, 1.0, 1.0], [1.0, 1e3, 1e-3, 30.0]):
  cases += 1
  tx = tsh.apply(tsh.Options(block_size=B, second_moment_decay=1.0))
  p = jnp.zeros((2 * B, 3, 2 * B))
  st = tx.init(p)
  sts = [tx.init(jnp.zeros((B, 3, B))) for _ in range(4)]
  for t in range(2):
    blocks = [(rng.randn(B, 3, B) * s).astype(np.float32) for s in scales]
    g = np.concatenate([np.concatenate(blocks[0:2], 2), np.concatenate(blocks[2:4], 2)], 0)
    u, st = tx.update(jnp.asarray(g), st, p)
    u = np.asarray(u, np.float64)
    for k in range(4):
      uk, sts[k] = tx.update(jnp.asarray(blocks[k]), sts[k], jnp.zeros((B, 3, B)))
      bi, bj = divmod(k, 2)
      e = rel(u[bi * B:(bi + 1) * B, :, bj * B:(bj + 1) * B], np.asarray(uk, np.float64))
      if e > 1e-3:
        add("tearfree.shampoo", ["(2B,3,2B)", scales, t, k], f"block {k} of the blocked tensor differs from the block optimized alone by relative {e:.3g}")

for scales in ([1.0, 1.0], [1e-3, 1e3]):
  cases += 1
  kw = dict(block_size=B, graft_type=ds.GraftingType.NONE, start_preconditioning_step=0, beta1=0.0, nesterov=False,
            matrix_epsilon=1e-6, best_effort_shape_interpretation=False, eigh=True)
  opt = ds.distributed_shampoo(1.0, **kw)
  nb = len(scales)
  p = {"w": jnp.zeros((nb * B, 3), jnp.float32)}
  st = opt.init(p)
  ps = [{"w": jnp.zeros((B, 3), jnp.float32)} for _ in range(nb)]
  sts = [opt.init(q) for q in ps]
  pc = {"w": p["w"], "other": jnp.zeros((5,), jnp.float32), "big": jnp.zeros((6, 7), jnp.float32)}
  stc = opt.init(pc)
  for t in range(3):
    blocks = [(rng.randn(B, 3) * s).astype(np.float32) for s in scales]
    g = np.concatenate(blocks, 0)
    u, st = opt.update({"w": jnp.asarray(g)}, st, p)
    uc, stc = opt.update({"w": jnp.asarray(g), "other": jnp.asarray(rng.randn(5).astype(np.float32) * 1e4),
                          "big": jnp.asarray(rng.randn(6, 7).astype(np.float32) * 1e-4)}, stc, pc)
    u = np.asarray(u["w"], np.float64)
    e = rel(np.asarray(uc["w"], np.float64), u)
    if e > 1e-5:
      add("distributed_shampoo", [scales, t], f"update changes by relative {e:.3g} when companion parameters are added")
    for k in range(nb):
      uk, sts[k] = opt.update({"w": jnp.asarray(blocks[k])}, sts[k], ps[k])
      e = rel(u[k * B:(k + 1) * B], np.asarray(uk["w"], np.float64))
      if e > 2e-3:
        add("distributed_shampoo", [scales, t, k], f"block {k} differs from the block optimized alone by relative {e:.3g}")

# Distributed Shampoo, two blocked axes with DIFFERENT block counts: (2B, 3B) -> 6 blocks of (B, B)
for scales in ([1.0] * 6, [1.0, 1e2, 1e-2, 10.0, 1.0, 1e-1]):
  cases += 1
  kw = dict(block_size=B, graft_type=ds.GraftingType.NONE, start_preconditioning_step=0, beta1=0.0, nesterov=False,
            matrix_epsilon=1e-6, best_effort_shape_interpretation=False, eigh=True)
  opt = ds.distributed_shampoo(1.0, **kw)
  p = {"w": jnp.zeros((2 * B, 3 * B), jnp.float32)}
  st = opt.init(p)
  ps = [{"w": jnp.zeros((B, B), jnp.float32)} for _ in range(6)]
  sts = [opt.init(q) for q in ps]
  for t in range(2):
    blocks = [(rng.randn(B, B) * s_).astype(np.float32) for s_ in scales]
    g = np.concatenate([np.concatenate(blocks[0:3], 1), np.concatenate(blocks[3:6], 1)], 0)
    u, st = opt.update({"w": jnp.asarray(g)}, st, p)
    u = np.asarray(u["w"], np.float64)
    for k in range(6):
      uk, sts[k] = opt.update({"w": jnp.asarray(blocks[k])}, sts[k], ps[k])
      bi, bj = divmod(k, 3)
      e = rel(u[bi * B:(bi + 1) * B, bj * B:(bj + 1) * B], np.asarray(uk["w"], np.float64))
      if e > 2e-3:
        add("distributed_shampoo", ["(2B,3B)", scales, t, k], f"block {k} differs from the block optimized alone by relative {e:.3g}")

print(json.dumps({"cases": cases, "violations": viol,
                  "bound": f"tier={tier}: Tearfree Shampoo 4 scale patterns (2-3 blocks) + 2 patterns on a (2B,3,2B) tensor, DS 2 scale patterns + companion leaves, 3 steps, seed {seed}"}))
