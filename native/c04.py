"""Native oracle for C04 (bounded grid): successive optimizer states compared bitwise through the public API.
Statistics change only on multiples of the statistics interval, preconditioners / diagnostics only on multiples of
the preconditioner interval; count advances by one; warm-up updates equal the graft-only optimizer's;
Tearfree Shampoo / Sketchy cadence."""
import itertools
import json
import os
import sys

import numpy as np
import jax
import jax.numpy as jnp

from precondition import distributed_shampoo as ds
from precondition.tearfree import shampoo as tsh, sketchy as tsk

tier = sys.argv[1] if len(sys.argv) > 1 else "quick"
seed = int(os.environ.get("VERIF_SEED", "0"))
rng = np.random.RandomState(seed + 21)
viol, cases = [], 0


def add(fn, inp, what):
  if len(viol) < 10:
    viol.append({"function": fn, "input": inp, "what": what})


def same(a, b):
  la, lb = jax.tree.leaves(a), jax.tree.leaves(b)
  return len(la) == len(lb) and all(np.asarray(x).tobytes() == np.asarray(y).tobytes() for x, y in zip(la, lb))


grid = [(1, 1, 0), (2, 3, 2), (3, 2, 1)] if tier == "quick" else list(itertools.product((1, 2, 3), (1, 2, 3, 4), (0, 2, 4)))
shape = (4, 3)
for ss, ps, start in grid:
  cases += 1
  jax.clear_caches()  # every configuration compiles its own executables; the JIT code mappings are otherwise exhausted
  opt = ds.distributed_shampoo(0.1, block_size=4, statistics_compute_steps=ss, preconditioning_compute_steps=ps,
                               start_preconditioning_step=start, graft_type=ds.GraftingType.RMSPROP)
  ref = ds.distributed_shampoo(0.1, block_size=4, start_preconditioning_step=10**6, graft_type=ds.GraftingType.RMSPROP)
  p = {"w": jnp.zeros(shape, jnp.float32)}
  st, rst = opt.init(p), ref.init(p)
  for t in range(7):
    g = {"w": jnp.asarray(rng.randn(*shape).astype(np.float32))}
    u, new = opt.update(g, st, p)
    ru, rst = ref.update(g, rst, p)
    old_s, new_s = st.stats["w"], new.stats["w"]
    if int(new.count) != int(st.count) + 1:
      add("distributed_shampoo.update", [ss, ps, start, t], "count did not advance by one")
    if t % ss != 0 and not same(old_s.statistics, new_s.statistics):
      add("distributed_shampoo.update", [ss, ps, start, t], "statistics changed off schedule")
    if t % ss == 0 and same(old_s.statistics, new_s.statistics):
      add("distributed_shampoo.update", [ss, ps, start, t], "statistics did not change on schedule")
    if t % ps != 0 and not (same(old_s.preconditioners, new_s.preconditioners) and same(old_s.training_metrics, new_s.training_metrics)):
      add("distributed_shampoo.update", [ss, ps, start, t], "preconditioners or diagnostics changed off schedule")
    if t < start and not same(u, ru):
      add("distributed_shampoo.update", [ss, ps, start, t], "warm-up update differs from the graft-only optimizer's")
    st = new

# scheduled preconditioner interval (grows as the learning rate decays): the interval in force at step t is
# preconditioning_compute_steps_schedule(lr, start, end, t)
for ps0, end in ((1, 40), (2, 40)):
  cases += 1
  lr = lambda t: 0.1 * (t + 1.0) ** -0.5
  opt = ds.distributed_shampoo(lr, block_size=4, preconditioning_compute_steps=ps0, decay_preconditioning_compute_steps=True,
                               end_preconditioning_compute_steps=end, start_preconditioning_step=1)
  p = {"w": jnp.zeros(shape, jnp.float32)}
  st = opt.init(p)
  for t in range(6):
    g = {"w": jnp.asarray(rng.randn(*shape).astype(np.float32))}
    u, new = opt.update(g, st, p)
    k_t = int(ds.preconditioning_compute_steps_schedule(lr, ps0, end, jnp.asarray(t)))
    old_s, new_s = st.stats["w"], new.stats["w"]
    if k_t < 1:
      add("preconditioning_compute_steps_schedule", [ps0, end, t], f"scheduled interval {k_t} < 1")
    elif t % k_t != 0 and not (same(old_s.preconditioners, new_s.preconditioners) and same(old_s.training_metrics, new_s.training_metrics)):
      add("distributed_shampoo.update", ["scheduled", ps0, end, t, k_t], "preconditioners or diagnostics changed on a step that is not a multiple of the scheduled interval")
    st = new

jax.clear_caches()
for fs, fp in ([(1, 1), (2, 3), (3, 2)] if tier == "quick" else list(itertools.product((1, 2, 3), (1, 2, 3)))):
  cases += 1
  opts = tsh.Options(block_size=4, update_statistics_freq=fs, update_preconditioners_freq=fp)
  tx = tsh.apply(opts)
  p = jnp.zeros((4, 3))
  st = tx.init(p)
  stale = True  # statistics changed since the roots were last refreshed
  for t in range(6):
    u, new = tx.update(jnp.asarray(rng.randn(4, 3).astype(np.float32)), st, p)
    if int(new.count) != int(st.count) + 1:
      add("tearfree.shampoo", [fs, fp, t], "count did not advance by one")
    stale = stale or t % fs == 0
    if t % fp == 0:
      if stale and same(st.blocks.roots, new.blocks.roots):
        add("tearfree.shampoo", [fs, fp, t], "roots not refreshed on the preconditioner schedule although the statistics changed since the last refresh")
      stale = False
    if t % fs != 0 and not same(st.blocks.stats, new.blocks.stats):
      add("tearfree.shampoo", [fs, fp, t], "statistics changed off schedule")
    if t % fs == 0 and same(st.blocks.stats, new.blocks.stats):
      add("tearfree.shampoo", [fs, fp, t], "statistics did not change on schedule")
    if t % fp != 0 and not same(st.blocks.roots, new.blocks.roots):
      add("tearfree.shampoo", [fs, fp, t], "roots changed off schedule")
    st = new

for f in ((1, 3) if tier == "quick" else (1, 2, 3, 4)):
  cases += 1
  tx = tsk.apply(tsk.Options(rank=2, update_freq=f))
  p = jnp.zeros((4, 3))
  st = tx.init(p)
  for t in range(6):
    u, new = tx.update(jnp.asarray(rng.randn(4, 3).astype(np.float32)), st, p)
    if int(new.count) != int(st.count) + 1:
      add("tearfree.sketchy", [f, t], "count did not advance by one")
    if t % f != 0 and not same(st.sketches, new.sketches):
      add("tearfree.sketchy", [f, t], "sketch changed off schedule")
    if t % f == 0 and same(st.sketches, new.sketches):
      add("tearfree.sketchy", [f, t], "sketch did not change on schedule")
    st = new

print(json.dumps({"cases": cases, "violations": viol,
                  "bound": f"tier={tier}: DS grid of {len(grid)} (statistics interval, preconditioner interval, start step) x 7 steps; Tearfree Shampoo/Sketchy frequency grids x 6 steps, seed {seed}"}))
