"""Symbolic scalars: SBool, SInt, SReal (wrappers over z3 terms).

Raw z3 terms cannot be the interpreter's values (their operators raise on
foreign operands instead of returning NotImplemented), hence the wrappers.
Python semantics assumed: mathematical ints, floor // and % (sign of divisor),
true division to real, int->real coercion.  Floats are mathematical reals in
this module (bit-precise floats live in fp.py, rounding-model floats in rnd.py).
"""
from __future__ import annotations

import fractions
import math

import z3

from . import ctx as _ctx


def cur():
  c = _ctx.CUR
  if c is None:
    raise _ctx.EngineError("symbolic operation outside a path context")
  return c


def _real_const(x):
  if isinstance(x, bool):
    x = int(x)
  if isinstance(x, int):
    return z3.RealVal(x)
  if isinstance(x, float):
    if math.isinf(x) or math.isnan(x):
      raise _ctx.Unsupported("non-finite float constant in real mode")
    f = fractions.Fraction(x)
    return z3.RealVal(f"{f.numerator}/{f.denominator}")
  if isinstance(x, fractions.Fraction):
    return z3.RealVal(f"{x.numerator}/{x.denominator}")
  raise TypeError(x)


def is_num(x):
  return isinstance(x, (int, float, fractions.Fraction)) and not isinstance(x, bool) or isinstance(x, bool)


class Sym:
  __slots__ = ("z",)
  __array_priority__ = 1000

  def __init__(self, z):
    self.z = z

  def __repr__(self):
    return f"{type(self).__name__}({self.z})"

  def __hash__(self):
    return hash(self.z)


class SBool(Sym):
  __slots__ = ()

  def __bool__(self):
    return cur().fork(self.z)

  def __and__(self, o):
    o = to_sbool(o)
    return NotImplemented if o is None else SBool(z3.And(self.z, o.z))

  __rand__ = __and__

  def __or__(self, o):
    o = to_sbool(o)
    return NotImplemented if o is None else SBool(z3.Or(self.z, o.z))

  __ror__ = __or__

  def __xor__(self, o):
    o = to_sbool(o)
    return NotImplemented if o is None else SBool(z3.Xor(self.z, o.z))

  __rxor__ = __xor__

  def __invert__(self):
    return SBool(z3.Not(self.z))

  def __eq__(self, o):
    ob = to_sbool(o)
    if ob is None:
      return NotImplemented
    return SBool(self.z == ob.z)

  def __ne__(self, o):
    ob = to_sbool(o)
    if ob is None:
      return NotImplemented
    return SBool(self.z != ob.z)

  __hash__ = Sym.__hash__

  def to_int(self):
    return SInt(z3.If(self.z, z3.IntVal(1), z3.IntVal(0)))

  # arithmetic on bools coerces to int, as in Python
  def __add__(self, o):
    return self.to_int() + o

  def __radd__(self, o):
    return o + self.to_int()

  def __sub__(self, o):
    return self.to_int() - o

  def __rsub__(self, o):
    return o - self.to_int()

  def __mul__(self, o):
    if isinstance(o, (list, tuple)):
      return o * (1 if bool(self) else 0)
    return self.to_int() * o

  def __rmul__(self, o):
    if isinstance(o, (list, tuple)):
      return o * (1 if bool(self) else 0)
    return o * self.to_int()

  def __int__(self):
    raise _ctx.Unsupported("int() of symbolic bool reached CPython")

  def astype_real(self):
    return SReal(z3.If(self.z, z3.RealVal(1), z3.RealVal(0)))


def to_sbool(o):
  if isinstance(o, SBool):
    return o
  if isinstance(o, bool):
    return SBool(z3.BoolVal(o))
  return None


def lift(x):
  """Python number or Sym -> Sym."""
  if isinstance(x, Sym):
    return x
  if isinstance(x, bool):
    return SBool(z3.BoolVal(x))
  if isinstance(x, int):
    return SInt(z3.IntVal(x))
  if isinstance(x, (float, fractions.Fraction)):
    return SReal(_real_const(x))
  try:
    import numpy as np  # noqa
    if isinstance(x, np.integer):
      return SInt(z3.IntVal(int(x)))
    if isinstance(x, np.floating):
      return SReal(_real_const(float(x)))
    if isinstance(x, np.bool_):
      return SBool(z3.BoolVal(bool(x)))
  except ImportError:
    pass
  return None


def _as_int_z(x):
  """z3 Int term of x if x is integral-kinded, else None."""
  if isinstance(x, SInt):
    return x.z
  if isinstance(x, SBool):
    return x.to_int().z
  if isinstance(x, bool):
    return z3.IntVal(int(x))
  if isinstance(x, int):
    return z3.IntVal(x)
  try:
    import numpy as np
    if isinstance(x, (np.integer, np.bool_)):
      return z3.IntVal(int(x))
  except ImportError:
    pass
  return None


def _as_real_z(x):
  if isinstance(x, SReal):
    return x.z
  iz = _as_int_z(x)
  if iz is not None:
    return z3.ToReal(iz) if not z3.is_int_value(iz) else z3.RealVal(iz.as_long())
  if isinstance(x, (float, fractions.Fraction)):
    return _real_const(x)
  try:
    import numpy as np
    if isinstance(x, np.floating):
      return _real_const(float(x))
  except ImportError:
    pass
  return None


def split_affine(az, dz):
  """az == x*dz + y syntactically -> (x, y)."""
  if not z3.is_add(az):
    if z3.is_mul(az):
      x = _factor_out(az, dz)
      if x is not None:
        return x, z3.IntVal(0)
    return None
  kids = az.children()
  for i, k in enumerate(kids):
    x = _factor_out(k, dz) if z3.is_mul(k) else (z3.IntVal(1) if k.eq(dz) else None)
    if x is not None:
      rest = [kk for j, kk in enumerate(kids) if j != i]
      y = rest[0] if len(rest) == 1 else (z3.Sum(rest) if rest else z3.IntVal(0))
      return x, y
  return None


def _factor_out(mul, dz):
  kids = mul.children()
  for i, k in enumerate(kids):
    if k.eq(dz):
      rest = [kk for j, kk in enumerate(kids) if j != i]
      if not rest:
        return z3.IntVal(1)
      x = rest[0]
      for r_ in rest[1:]:
        x = x * r_
      return x
  return None


def floordiv_int(a, b, check=True):
  """Python floor division / modulo on z3 ints: returns (q, r)."""
  c = cur()
  if check:
    c.oblige(f"nonzero-divisor@{getattr(c, 'site', '')}", b != 0, kind="definedness")
  if z3.is_int_value(b) and b.as_long() > 0:
    # z3 div/mod are floor for positive divisors
    return a / b, a % b
  key = ("floordiv", a.get_id(), b.get_id())
  if key in c.ghost:
    return c.ghost[key]
  sp = split_affine(a, b)
  if sp is None:
    sp = split_affine(z3.simplify(a), b)
  if sp is not None:
    x, y = sp
    side = z3.Or(z3.And(y >= 0, y < b), z3.And(y <= 0, y > b))
    if c.solver.check(z3.Not(side)) == z3.unsat:
      c.ghost[key] = (x, y)
      return x, y
  q = c.fresh_int("q")
  r = c.fresh_int("r")
  c.assume(a == q * b + r)
  c.assume(z3.Implies(b > 0, z3.And(0 <= r, r < b)))
  c.assume(z3.Implies(b < 0, z3.And(b < r, r <= 0)))
  c.ghost[key] = (q, r)
  return q, r


class SInt(Sym):
  __slots__ = ()

  def _bin(self, o, f, rf=None, swap=False):
    oz = _as_int_z(o)
    if oz is not None:
      return SInt(f(oz, self.z) if swap else f(self.z, oz))
    orz = _as_real_z(o)
    if orz is not None:
      me = z3.ToReal(self.z)
      g = rf or f
      return SReal(g(orz, me) if swap else g(me, orz))
    return NotImplemented

  def __add__(self, o):
    return self._bin(o, lambda a, b: a + b)

  def __radd__(self, o):
    return self._bin(o, lambda a, b: a + b, swap=True)

  def __sub__(self, o):
    return self._bin(o, lambda a, b: a - b)

  def __rsub__(self, o):
    return self._bin(o, lambda a, b: a - b, swap=True)

  def __mul__(self, o):
    return self._bin(o, lambda a, b: a * b)

  def __rmul__(self, o):
    return self._bin(o, lambda a, b: a * b, swap=True)

  def __neg__(self):
    return SInt(-self.z)

  def __pos__(self):
    return self

  def __abs__(self):
    return SInt(z3.If(self.z >= 0, self.z, -self.z))

  def __truediv__(self, o):
    orz = _as_real_z(o)
    if orz is None:
      return NotImplemented
    oz = _as_int_z(o)
    if oz is not None and not z3.is_int_value(oz):
      # exact quotient when the divisor is a syntactic factor: (x*d)/d = x for d != 0
      sp = split_affine(self.z, oz) or split_affine(z3.simplify(self.z), oz)
      if sp is not None and z3.is_int_value(sp[1]) and sp[1].as_long() == 0 and prove(SBool(oz != 0)):
        return SReal(z3.ToReal(sp[0]))
    return SReal(z3.ToReal(self.z)) / o

  def __rtruediv__(self, o):
    orz = _as_real_z(o)
    if orz is None:
      return NotImplemented
    return SReal(orz) / self

  def __floordiv__(self, o):
    oz = _as_int_z(o)
    if oz is None:
      rz = _as_real_z(o)
      if rz is None:
        return NotImplemented
      return SReal(z3.ToReal(self.z)) // o
    return SInt(floordiv_int(self.z, oz)[0])

  def __rfloordiv__(self, o):
    oz = _as_int_z(o)
    if oz is None:
      return NotImplemented
    return SInt(floordiv_int(oz, self.z)[0])

  def __mod__(self, o):
    oz = _as_int_z(o)
    if oz is None:
      return NotImplemented
    return SInt(floordiv_int(self.z, oz)[1])

  def __rmod__(self, o):
    oz = _as_int_z(o)
    if oz is None:
      return NotImplemented
    return SInt(floordiv_int(oz, self.z)[1])

  def __pow__(self, o):
    if isinstance(o, int) and not isinstance(o, bool) and 0 <= o <= 8:
      r = z3.IntVal(1)
      for _ in range(o):
        r = r * self.z
      return SInt(r)
    return SReal(z3.ToReal(self.z)) ** o

  def __rpow__(self, o):
    return spow(o, self)

  def _cmp(self, o, f):
    oz = _as_int_z(o)
    if oz is not None:
      return SBool(f(self.z, oz))
    orz = _as_real_z(o)
    if orz is not None:
      return SBool(f(z3.ToReal(self.z), orz))
    return NotImplemented

  def __lt__(self, o):
    return self._cmp(o, lambda a, b: a < b)

  def __le__(self, o):
    return self._cmp(o, lambda a, b: a <= b)

  def __gt__(self, o):
    return self._cmp(o, lambda a, b: a > b)

  def __ge__(self, o):
    return self._cmp(o, lambda a, b: a >= b)

  def __eq__(self, o):
    r = self._cmp(o, lambda a, b: a == b)
    if r is NotImplemented:
      if o is None or isinstance(o, (str, tuple, list)):
        return False
    return r

  def __ne__(self, o):
    r = self._cmp(o, lambda a, b: a != b)
    if r is NotImplemented:
      if o is None or isinstance(o, (str, tuple, list)):
        return True
    return r

  __hash__ = Sym.__hash__

  def __bool__(self):
    return cur().fork(self.z != 0)

  def __index__(self):
    raise _ctx.Unsupported("symbolic int used as a concrete index by CPython")

  def __int__(self):
    raise _ctx.Unsupported("int() of symbolic int reached CPython")

  def __float__(self):
    raise _ctx.Unsupported("float() of symbolic int reached CPython")

  def astype_real(self):
    return SReal(z3.ToReal(self.z))


class SReal(Sym):
  """A mathematical real standing for a float (DESIGN 4.2, default mode)."""
  __slots__ = ()
  CHECK_DIV = False

  def _bin(self, o, f, swap=False):
    orz = _as_real_z(o)
    if orz is None:
      return NotImplemented
    return SReal(f(orz, self.z) if swap else f(self.z, orz))

  def __add__(self, o):
    return self._bin(o, lambda a, b: a + b)

  def __radd__(self, o):
    return self._bin(o, lambda a, b: a + b, swap=True)

  def __sub__(self, o):
    return self._bin(o, lambda a, b: a - b)

  def __rsub__(self, o):
    return self._bin(o, lambda a, b: a - b, swap=True)

  def __mul__(self, o):
    return self._bin(o, lambda a, b: a * b)

  def __rmul__(self, o):
    return self._bin(o, lambda a, b: a * b, swap=True)

  def __neg__(self):
    return SReal(-self.z)

  def __pos__(self):
    return self

  def __abs__(self):
    return SReal(z3.If(self.z >= 0, self.z, -self.z))

  def __truediv__(self, o):
    orz = _as_real_z(o)
    if orz is None:
      return NotImplemented
    return SReal(self.z / orz)

  def __rtruediv__(self, o):
    orz = _as_real_z(o)
    if orz is None:
      return NotImplemented
    return SReal(orz / self.z)

  def __floordiv__(self, o):
    orz = _as_real_z(o)
    if orz is None:
      return NotImplemented
    # floor(a / b) as a real
    return SReal(z3.ToReal(z3.ToInt(self.z / orz)))

  def __rfloordiv__(self, o):
    orz = _as_real_z(o)
    if orz is None:
      return NotImplemented
    return SReal(z3.ToReal(z3.ToInt(orz / self.z)))

  def __pow__(self, o):
    return spow(self, o)

  def __rpow__(self, o):
    return spow(o, self)

  def _cmp(self, o, f):
    orz = _as_real_z(o)
    if orz is None:
      return NotImplemented
    return SBool(f(self.z, orz))

  def __lt__(self, o):
    return self._cmp(o, lambda a, b: a < b)

  def __le__(self, o):
    return self._cmp(o, lambda a, b: a <= b)

  def __gt__(self, o):
    return self._cmp(o, lambda a, b: a > b)

  def __ge__(self, o):
    return self._cmp(o, lambda a, b: a >= b)

  def __eq__(self, o):
    r = self._cmp(o, lambda a, b: a == b)
    if r is NotImplemented and (o is None or isinstance(o, str)):
      return False
    return r

  def __ne__(self, o):
    r = self._cmp(o, lambda a, b: a != b)
    if r is NotImplemented and (o is None or isinstance(o, str)):
      return True
    return r

  __hash__ = Sym.__hash__

  def __bool__(self):
    return cur().fork(self.z != 0)

  def __float__(self):
    raise _ctx.Unsupported("float() of symbolic real reached CPython")

  def __int__(self):
    raise _ctx.Unsupported("int() of symbolic real reached CPython")

  def astype_real(self):
    return self


# ------------------------------------------------------------------ powers
_POW = None
_SQRT = None


def pow_fn():
  """Uninterpreted real power; axioms are instantiated by users (lib/axioms)."""
  global _POW
  if _POW is None:
    _POW = z3.Function("rpow", z3.RealSort(), z3.RealSort(), z3.RealSort())
  return _POW


def spow(base, expo):
  """base ** expo in real mode."""
  if isinstance(expo, bool):
    expo = int(expo)
  if isinstance(expo, int) and -8 <= expo <= 8:
    bz = _as_real_z(base)
    if isinstance(base, SInt) and expo >= 0:
      r = z3.IntVal(1)
      for _ in range(expo):
        r = r * base.z
      return SInt(r)
    r = z3.RealVal(1)
    for _ in range(abs(expo)):
      r = r * bz
    if expo < 0:
      r = 1 / r
    return SReal(r)
  if isinstance(expo, float) and expo == 0.5:
    return ssqrt(base)
  bz = _as_real_z(base)
  ez = _as_real_z(expo)
  if bz is None or ez is None:
    return NotImplemented
  c = cur()
  t = pow_fn()(bz, ez)
  c.ghost.setdefault("pow_calls", []).append((SReal(bz), SReal(ez), getattr(c, "site", "")))
  # basic sign facts: positive base gives positive power; x**1 == x
  c.fact(z3.Implies(bz > 0, t > 0), "pow: x>0 => x**a > 0")
  c.fact(z3.Implies(ez == 1, t == bz), "pow: x**1 = x")
  c.fact(z3.Implies(z3.And(bz == 1), t == 1), "pow: 1**a = 1")
  return SReal(t)


def ssqrt(x):
  """sqrt in real mode: fresh y with y>=0 and y*y == x (for x >= 0)."""
  xz = _as_real_z(x)
  c = cur()
  key = ("sqrt", xz.get_id())
  if key in c.ghost:
    return c.ghost[key]
  y = c.fresh_real("sqrt")
  c.fact(z3.Implies(xz >= 0, z3.And(y >= 0, y * y == xz)), "sqrt: y>=0, y*y=x for x>=0")
  r = SReal(y)
  c.ghost[key] = r
  return r


def ite(c, a, b):
  """Symbolic if-then-else over scalars (no forking)."""
  if isinstance(c, bool):
    return a if c else b
  cz = c.z if isinstance(c, SBool) else None
  if cz is None:
    if isinstance(c, Sym):
      cz = (c != 0).z
    else:
      return a if c else b
  if isinstance(a, (SBool, bool)) and isinstance(b, (SBool, bool)):
    return SBool(z3.If(cz, to_sbool(a).z, to_sbool(b).z))
  ai, bi = _as_int_z(a), _as_int_z(b)
  if ai is not None and bi is not None:
    return SInt(z3.If(cz, ai, bi))
  ar, br = _as_real_z(a), _as_real_z(b)
  if ar is not None and br is not None:
    return SReal(z3.If(cz, ar, br))
  if hasattr(a, "ite_with") :
    return a.ite_with(c, b)
  raise _ctx.Unsupported(f"ite over {type(a).__name__}, {type(b).__name__}")


def smin(a, b):
  return ite(a <= b, a, b)


def smax(a, b):
  return ite(a >= b, a, b)


def sand(*xs):
  zs = []
  for x in xs:
    if isinstance(x, bool):
      if not x:
        return SBool(z3.BoolVal(False))
      continue
    if hasattr(x, "_pyvc_truth"):
      x = x._pyvc_truth()
    zs.append(x.z if isinstance(x, Sym) else x)
  if not zs:
    return SBool(z3.BoolVal(True))
  return SBool(z3.And(*zs))


def sor(*xs):
  zs = []
  for x in xs:
    if isinstance(x, bool):
      if x:
        return SBool(z3.BoolVal(True))
      continue
    if hasattr(x, "_pyvc_truth"):
      x = x._pyvc_truth()
    zs.append(x.z if isinstance(x, Sym) else x)
  if not zs:
    return SBool(z3.BoolVal(False))
  return SBool(z3.Or(*zs))


def snot(x):
  if isinstance(x, bool):
    return not x
  return SBool(z3.Not(x.z if isinstance(x, Sym) else x))


def implies(a, b):
  az = z3.BoolVal(a) if isinstance(a, bool) else (a.z if isinstance(a, Sym) else a)
  bz = z3.BoolVal(b) if isinstance(b, bool) else (b.z if isinstance(b, Sym) else b)
  return SBool(z3.Implies(az, bz))


def is_sym(x):
  return isinstance(x, Sym)


def prove(cond):
  """True if the path condition entails cond (cheap solver query; False if unknown)."""
  if isinstance(cond, bool):
    return cond
  cz = cond.z if isinstance(cond, Sym) else cond
  sc = z3.simplify(cz)
  if z3.is_true(sc):
    return True
  if z3.is_false(sc):
    return False
  return cur().solver.check(z3.Not(cz)) == z3.unsat


def concretize(x):
  """If the path condition forces x to a single integer value, returns it."""
  ci = concrete_int(x)
  if ci is not None or not isinstance(x, SInt):
    return ci
  c = cur()
  s = c.solver
  if s.check() != z3.sat:
    return None
  v = s.model().eval(x.z, model_completion=True)
  if not z3.is_int_value(v):
    return None
  r = s.check(x.z != v)
  if r == z3.unsat:
    return v.as_long()
  if r == z3.unknown:
    # non-linear path conditions (floor divisions by a symbolic block size ...): the stronger prover (mixed-radix rewriting,
    # case analysis) may still establish that the model value is the only one
    try:
      if prove(x == v.as_long()):
        return v.as_long()
    except Exception:  # pylint: disable=broad-except
      pass
  return None


def concrete_int(x):
  """Returns python int if x is concretely an int (incl. constant SInt)."""
  if isinstance(x, bool):
    return int(x)
  if isinstance(x, int):
    return x
  if isinstance(x, SInt):
    s = z3.simplify(x.z)
    if z3.is_int_value(s):
      return s.as_long()
    return None
  try:
    import numpy as np
    if isinstance(x, np.integer):
      return int(x)
  except ImportError:
    pass
  return None
