"""A model of jax.tree over python containers (library contract, DESIGN 4.3).

Nodes: list, tuple, dict (sorted keys), NamedTuple, flax struct.dataclass
(fields with pytree_node=False are static), None (no leaves).  Everything else
is a leaf (plain dataclasses are leaves, as in jax)."""
from __future__ import annotations

import dataclasses


class TreeDef:

  def __init__(self, kind, meta, children):
    self.kind, self.meta, self.children = kind, meta, children

  def __eq__(self, o):
    return (isinstance(o, TreeDef) and self.kind == o.kind and self.meta == o.meta and
            self.children == o.children)

  def __hash__(self):
    return hash((self.kind, str(self.meta), tuple(self.children)))

  def __repr__(self):
    if self.kind == "leaf":
      return "*"
    return f"{self.kind}{self.meta if self.meta is not None else ''}({', '.join(map(repr, self.children))})"

  @property
  def num_leaves(self):
    if self.kind == "leaf":
      return 1
    return sum(c.num_leaves for c in self.children)

  def unflatten(self, leaves):
    it = iter(leaves)
    r = _unflatten(self, it)
    return r

  def flatten_up_to(self, tree):
    out = []
    _flatten_up_to(self, tree, out)
    return out


def is_struct_dataclass(x):
  return dataclasses.is_dataclass(x) and not isinstance(x, type) and getattr(type(x), "_pyvc_struct", False)


def _node_children(x):
  """Returns (kind, meta, children) or None for a leaf."""
  if x is None:
    return ("none", None, [])
  if isinstance(x, list):
    return ("list", len(x), list(x))
  if isinstance(x, tuple) and hasattr(x, "_fields"):
    return ("namedtuple", type(x), list(x))
  if isinstance(x, tuple):
    return ("tuple", len(x), list(x))
  if isinstance(x, dict):
    keys = sorted(x.keys(), key=lambda k: (str(type(k)), k))
    return ("dict", tuple(keys), [x[k] for k in keys])
  if is_struct_dataclass(x):
    data, static = [], []
    for f in dataclasses.fields(x):
      if f.metadata.get("pytree_node", True):
        data.append(f.name)
      else:
        static.append((f.name, _freeze(getattr(x, f.name))))
    return ("struct", (type(x), tuple(data), tuple(static)), [getattr(x, n) for n in data])
  return None


def _freeze(v):
  if isinstance(v, list):
    return ("list", tuple(_freeze(e) for e in v))
  if isinstance(v, dict):
    return ("dict", tuple(sorted((k, _freeze(e)) for k, e in v.items())))
  try:
    hash(v)
    return v
  except TypeError:
    return repr(v)


def _thaw(v):
  if isinstance(v, tuple) and len(v) == 2 and v[0] == "list":
    return [_thaw(e) for e in v[1]]
  if isinstance(v, tuple) and len(v) == 2 and v[0] == "dict":
    return {k: _thaw(e) for k, e in v[1]}
  return v


def flatten(tree, is_leaf=None):
  leaves = []

  def rec(x):
    if is_leaf is not None and is_leaf(x):
      leaves.append(x)
      return TreeDef("leaf", None, [])
    nc = _node_children(x)
    if nc is None:
      leaves.append(x)
      return TreeDef("leaf", None, [])
    kind, meta, ch = nc
    return TreeDef(kind, meta, [rec(c) for c in ch])

  td = rec(tree)
  return leaves, td


def _unflatten(td, it):
  if td.kind == "leaf":
    return next(it)
  ch = [_unflatten(c, it) for c in td.children]
  if td.kind == "none":
    return None
  if td.kind == "list":
    return ch
  if td.kind == "tuple":
    return tuple(ch)
  if td.kind == "namedtuple":
    return td.meta(*ch)
  if td.kind == "dict":
    return dict(zip(td.meta, ch))
  if td.kind == "struct":
    cls, data, static = td.meta
    kw = dict(zip(data, ch))
    kw.update({k: _thaw(v) for k, v in static})
    return cls(**kw)
  raise ValueError(td.kind)


def _flatten_up_to(td, tree, out):
  if td.kind == "leaf":
    out.append(tree)
    return
  nc = _node_children(tree)
  if nc is None:
    raise ValueError(f"Tree structure mismatch: expected {td.kind} node, got leaf {type(tree).__name__}")
  kind, meta, ch = nc
  if kind != td.kind or len(ch) != len(td.children) or (kind in ("dict",) and meta != td.meta) or (
      kind == "namedtuple" and meta is not td.meta) or (kind == "struct" and meta[0] is not td.meta[0]):
    raise ValueError(f"Tree structure mismatch: {td} vs {kind}{meta}")
  for c, x in zip(td.children, ch):
    _flatten_up_to(c, x, out)


def tree_map(f, tree, *rest, is_leaf=None):
  leaves, td = flatten(tree, is_leaf)
  others = [td.flatten_up_to(r) for r in rest]
  return td.unflatten([f(*xs) for xs in zip(leaves, *others)] if others else [f(x) for x in leaves])


class _Key:

  def __init__(self, **kw):
    self.__dict__.update(kw)

  def __repr__(self):
    return str(self.__dict__)


def flatten_with_path(tree, is_leaf=None):
  out = []

  def rec(x, path):
    if is_leaf is not None and is_leaf(x):
      out.append((path, x))
      return TreeDef("leaf", None, [])
    nc = _node_children(x)
    if nc is None:
      out.append((path, x))
      return TreeDef("leaf", None, [])
    kind, meta, ch = nc
    if kind == "dict":
      keys = [_Key(key=k) for k in meta]
    elif kind == "namedtuple":
      keys = [_Key(name=n) for n in type(x)._fields]
    elif kind == "struct":
      keys = [_Key(name=n) for n in meta[1]]
    else:
      keys = [_Key(idx=i) for i in range(len(ch))]
    return TreeDef(kind, meta, [rec(c, path + (k,)) for k, c in zip(keys, ch)])

  td = rec(tree, ())
  return out, td


def tree_map_with_path(f, tree, *rest, is_leaf=None):
  pl, td = flatten_with_path(tree, is_leaf)
  others = [td.flatten_up_to(r) for r in rest]
  return td.unflatten([f(p, x, *xs) for (p, x), *xs in zip(pl, *others)] if others else [f(p, x) for p, x in pl])


def tree_all(tree):
  leaves, _ = flatten(tree)
  r = True
  for l in leaves:
    if not l:
      return False
  return r


def structure(tree, is_leaf=None):
  return flatten(tree, is_leaf)[1]
