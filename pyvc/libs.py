"""Library shims = the library contracts (axioms) of DESIGN 4.3, executable."""
from __future__ import annotations

import copy as _copy
import dataclasses
import enum
import functools
import itertools
import math
import string
import types
import typing

import z3

from . import ctx as _ctx
from . import pytree
from . import seq
from . import sym
from . import tensor as T
from .ctx import PathEnd, Unsupported
from .sym import SBool, SInt, SReal, cur
from .tensor import OPS, Tensor


def NS(**kw):
  return types.SimpleNamespace(**kw)


def _unsupported(name):

  def f(*a, **k):
    raise Unsupported(f"library function {name} has no contract")

  f.__name__ = name
  return f


# ------------------------------------------------------------------ decompositions
class SortedOpaque:
  """Opaque 1-D (batched) values with an ordering fact instantiated pairwise."""

  def __init__(self, name, shape, descending, nonneg, dtype):
    self.t = T.opaque(name, shape, dtype)
    self.desc = descending
    self.nonneg = nonneg
    self.seen = []
    base = self.t._fn
    outer = self

    def fn(idx):
      v = base(idx)
      c = cur()
      key = T._key(idx)
      for (k2, idx2, v2) in outer.seen:
        if k2 == key:
          return v
      if outer.nonneg:
        c.fact(v >= 0, "svd: singular values are non-negative")
      for (k2, idx2, v2) in outer.seen:
        same_batch = sym.sand(*[a == b for a, b in zip(idx[:-1], idx2[:-1])])
        i, j = idx[-1], idx2[-1]
        le = (v >= v2) if outer.desc else (v <= v2)
        ge = (v <= v2) if outer.desc else (v >= v2)
        c.fact(sym.implies(sym.sand(same_batch, i <= j), le), "eigh/svd: values are sorted")
        c.fact(sym.implies(sym.sand(same_batch, i >= j), ge), "eigh/svd: values are sorted")
      outer.seen.append((key, idx, v))
      return v

    self.t._fn = fn


def eigh(x, **kw):
  T._no_kw("eigh", kw, ("symmetrize_input",) if kw.get("UPLO") is None else ())
  x = T.asarray(x)
  T.shape_compat(x.shape[-1], x.shape[-2], "eigh-square")
  w = SortedOpaque("eigh_w", x.shape[:-1], descending=False, nonneg=False, dtype=x.dtype).t
  v = T.opaque("eigh_v", x.shape, x.dtype)
  w.tags["eigh_of"] = x
  v.tags["eigh_of"] = x
  nb = len(x.shape) - 2
  dd = cur().ghost.setdefault("dep_derived", {})
  dd[w.tags["f"].name()] = (x, nb)
  dd[v.tags["f"].name()] = (x, nb)
  cur().axioms_used.add("eigh: eigenvalues ascending, real; batched over leading axes")
  cur().ghost["last_eigh"] = (w, v)
  cur().ghost.setdefault("eighs", []).append((x, w, v))
  return w, v


def svd(x, full_matrices=True, compute_uv=True, **kw):
  T._no_kw("svd", kw, ("hermitian",) if not kw.get("hermitian") else ())
  x = T.asarray(x)
  m, n = x.shape[-2], x.shape[-1]
  if full_matrices:
    raise Unsupported("svd with full_matrices=True")
  k = m if sym.prove(m <= n) else (n if sym.prove(n <= m) else seq.b_min(m, n))
  s = SortedOpaque("svd_s", x.shape[:-2] + (k,), descending=True, nonneg=True, dtype=x.dtype).t
  u = T.opaque("svd_u", x.shape[:-2] + (m, k), x.dtype)
  vt = T.opaque("svd_vt", x.shape[:-2] + (k, n), x.dtype)
  for t_ in (u, s, vt):
    t_.tags["svd_of"] = x
    cur().ghost.setdefault("dep_derived", {})[t_.tags["f"].name()] = (x, len(x.shape) - 2)
  cur().axioms_used.add("svd: singular values descending and >= 0")
  cur().ghost["last_svd"] = (u, s, vt)
  cur().ghost.setdefault("svds", []).append((x, u, s, vt))
  if not compute_uv:
    return s
  return u, s, vt


def cholesky(x, **kw):
  """jnp.linalg.cholesky is defined for POSITIVE DEFINITE operands only (NaN otherwise).  Positive definiteness is not
  something the term language can establish, so any use leaves the run undecided (the native oracle is then consulted)."""
  from .ctx import Undecided
  raise Undecided("jnp.linalg.cholesky: positive definiteness of the operand cannot be established (a singular Gram matrix gives NaN)")


def qr(x, mode="reduced"):
  x = T.asarray(x)
  m, n = x.shape
  k = m if sym.prove(m <= n) else (n if sym.prove(n <= m) else seq.b_min(m, n))
  if mode == "r":
    r = T.opaque("qr_r", (k, n), x.dtype)
    r.tags["qr_r_of"] = x
    cur().ghost["last_qr_input"] = x
    cur().axioms_used.add("qr(mode='r'): R^T R = X^T X (opaque)")
    return r
  raise Unsupported("qr mode " + mode)


# ------------------------------------------------------------------ elementwise helpers
def _u(f):
  def g(x, *a, **k):
    if a or any(v is not None for v in k.values()):
      raise Unsupported(f"elementwise library function called with extra arguments {a} {k}")
    return T.ew(f, x)
  return g


def _sqrt(x):
  return T.ew(lambda v: OPS.sqrt(v), x, dtype=_fdt(x))


def _fdt(x):
  if isinstance(x, Tensor) and x.dtype.kind == "f":
    return x.dtype
  return T.float32


def _rsqrt(x):
  return T.ew(lambda v: 1.0 / OPS.sqrt(v), x, dtype=_fdt(x))


def _square(x):
  return T.ew(lambda v: T._mul(v, v), x)


def _power(x, p):
  return T.ew(T._pow, x, p)


def _isnan(x):
  return T.ew(lambda v: OPS.isnan(v), x, cmp=True)


def _isfinite(x):
  return T.ew(lambda v: OPS.isfinite(v), x, cmp=True)


def _logical_and(a, b):
  return T.ew(lambda x, y: T._and(OPS.truth(x), OPS.truth(y)), a, b, cmp=True)


def _logical_or(a, b):
  return T.ew(lambda x, y: T._or(OPS.truth(x), OPS.truth(y)), a, b, cmp=True)


def _logical_not(a):
  return T.ew(lambda x: sym.snot(OPS.truth(x)), a, cmp=True)


def _zeros_like(x, dtype=None):
  x = T.asarray(x)
  return T.zeros(x.shape, dtype or x.dtype)


def _ones_like(x, dtype=None):
  x = T.asarray(x)
  return T.ones(x.shape, dtype or x.dtype)


def _array(x, dtype=None, **kw):
  T._no_kw("array", kw, ("copy", "order", "ndmin") if kw.get("ndmin", 0) in (0, None) else ())
  r = T.asarray(x, dtype)
  if isinstance(r, Tensor) and r.tags.get("numpy_owned"):
    # jnp.asarray / jnp.array of a NumPy array yields a fresh device array (outside a traced region; inside one it
    # is a constant: T.note_use reports it)
    T.note_use(r)
    return Tensor(r.shape, r.dtype, r._fn, T._tags(r))
  return r


def _round(x):
  return T.ew(lambda v: OPS.round(v), x)


def _uf(name):
  """Uninterpreted real function applied elementwise (exp, log, ...)."""
  f = z3.Function(name, z3.RealSort(), z3.RealSort())

  def ap(v):
    if isinstance(v, (int, float)) and not isinstance(v, bool):
      return getattr(math, name)(v)
    return SReal(f(sym._as_real_z(v)))

  return lambda x: T.ew(ap, x, dtype=_fdt(x))


class _RandomState:

  def __init__(self, seed):
    self.seed = seed

  def uniform(self, lo, hi, size):
    t = T.opaque(f"rand{self.seed}", (size,) if not isinstance(size, (tuple, list)) else tuple(size))
    base = t._fn

    def fn(idx):
      v = base(idx)
      cur().fact(sym.sand(v >= lo, v <= hi), "RandomState.uniform: values within [lo, hi]")
      return v

    t._fn = fn
    t.tags["fixed_seed"] = self.seed
    return t


def _finfo(dt):
  """jnp.finfo / np.finfo: machine parameters of the float dtypes (IEEE constants)."""
  if isinstance(dt, Tensor):
    dt = dt.dtype
  d = T.as_dtype(dt)
  table = {"float32": (2.0 ** -23, 3.4028234663852886e38, 1.1754943508222875e-38, 32),
           "float64": (2.0 ** -52, 1.7976931348623157e308, 2.2250738585072014e-308, 64),
           "float16": (2.0 ** -10, 65504.0, 6.103515625e-05, 16),
           "bfloat16": (2.0 ** -7, 3.3895313892515355e38, 1.1754943508222875e-38, 16)}
  if d is None or d.name not in table:
    raise Unsupported(f"finfo of {dt}")
  eps, mx, tiny, bits = table[d.name]
  return NS(eps=eps, max=mx, min=-mx, tiny=tiny, smallest_normal=tiny, bits=bits, dtype=d, resolution=10.0 ** -int(-__import__("math").log10(eps)))


def make_jnp():
  j = NS()
  j.finfo = _finfo
  for d in T.DTYPES.values():
    setattr(j, d.name, d)
  j.bool_ = T.bool_
  j.newaxis = None
  j.nan = float("nan")
  j.inf = float("inf")
  j.ndarray = Tensor
  j.dtype = T.as_dtype
  j.array = _array
  j.asarray = _array
  j.zeros = T.zeros
  j.ones = T.ones
  j.full = T.full
  j.eye = T.eye
  j.arange = T.arange
  j.zeros_like = _zeros_like
  j.ones_like = _ones_like
  j.where = T.where
  j.maximum = lambda a, b: T.ew(OPS.maximum, a, b)
  j.minimum = lambda a, b: T.ew(OPS.minimum, a, b)
  j.abs = lambda x: T.ew(OPS.abs, x)
  j.sqrt = _sqrt
  j.square = _square
  j.sign = lambda x: T.ew(OPS.sign, x)
  j.round = _round
  j.power = _power
  j.reciprocal = lambda x: T.ew(lambda v: 1.0 / v, x, dtype=_fdt(x))
  j.exp = _uf("exp")
  j.log = _uf("log")
  j.log1p = _uf("log1p")
  j.expm1 = _uf("expm1")
  j.isnan = _isnan
  j.isfinite = _isfinite
  j.logical_and = _logical_and
  j.logical_or = _logical_or
  j.logical_not = _logical_not
  j.greater = lambda a, b: T.ew(lambda x, y: x > y, a, b, cmp=True)
  j.max = T.rmax
  j.min = T.rmin
  j.sum = T.rsum
  j.mean = T.rmean
  j.prod = T.rprod
  j.any = T.rany
  j.all = T.rall
  j.matmul = T.matmul
  j.dot = T.matmul
  j.tensordot = T.tensordot
  j.einsum = T.einsum
  j.reshape = T.reshape
  j.transpose = T.transpose
  j.moveaxis = T.moveaxis
  j.expand_dims = T.expand_dims
  j.squeeze = T.squeeze
  j.concatenate = T.concatenate
  j.stack = T.stack
  j.split = T.split
  j.pad = T.pad
  j.flip = T.flip
  j.roll = T.roll
  j.diag = T.diag
  j.repeat = T.repeat
  j.trace = T.trace
  j.cov = _unsupported("jnp.cov")
  j.full_like = lambda x, v, dtype=None: T.full(T.asarray(x).shape, v, dtype or T.asarray(x).dtype)
  j.clip = lambda x, lo=None, hi=None: T.ew(
      lambda v: (v if lo is None else OPS.maximum(v, lo)) if hi is None else OPS.minimum(v if lo is None else OPS.maximum(v, lo), hi), x)
  j.negative = lambda x: T.ew(lambda v: -v, x)
  j.add = lambda a, b: T.ew(lambda x, y: x + y, a, b)
  j.subtract = lambda a, b: T.ew(lambda x, y: x - y, a, b)
  j.multiply = lambda a, b: T.ew(T._mul, a, b)
  j.divide = lambda a, b: T.ew(T._div, a, b)
  j.true_divide = j.divide
  j.equal = lambda a, b: T.ew(lambda x, y: x == y, a, b, cmp=True)
  j.not_equal = lambda a, b: T.ew(lambda x, y: x != y, a, b, cmp=True)
  j.less = lambda a, b: T.ew(lambda x, y: x < y, a, b, cmp=True)
  j.less_equal = lambda a, b: T.ew(lambda x, y: x <= y, a, b, cmp=True)
  j.greater_equal = lambda a, b: T.ew(lambda x, y: x >= y, a, b, cmp=True)
  j.floor = lambda x: T.ew(lambda v: v // 1 if not isinstance(v, (int, float)) else float(__import__("math").floor(v)), x)
  def _broadcast_to(x, shape):
    x = T.asarray(x)
    shape = tuple(shape) if isinstance(shape, (list, tuple)) else (shape,)
    off = len(shape) - len(x.shape)
    if off < 0:
      raise Unsupported("broadcast_to a lower rank")
    for d_, s_ in zip(x.shape, shape[off:]):
      if not T._is_one(d_):
        T.shape_compat(d_, s_, "broadcast_to")
    return Tensor(shape, x.dtype, lambda idx: x.at(tuple(0 if T._is_one(d_) else idx[off + k_] for k_, d_ in enumerate(x.shape))))

  j.broadcast_to = _broadcast_to

  def _swapaxes(x, a, b):
    x = T.asarray(x)
    a, b = T._norm_axis(a, x.ndim), T._norm_axis(b, x.ndim)
    return T.transpose(x, [b if i == a else a if i == b else i for i in range(x.ndim)])

  j.swapaxes = _swapaxes
  j.ravel = lambda x: T.reshape(x, (-1,))
  j.shape = lambda x: T.asarray(x).shape
  j.ndim = lambda x: T.asarray(x).ndim
  j.size = lambda x: T.asarray(x).size
  j.outer = lambda a, b: T.ew(T._mul, T.expand_dims(T.asarray(a), 1), T.expand_dims(T.asarray(b), 0))
  j.identity = lambda n, dtype=None: T.eye(n, dtype=dtype)
  j.tile = _unsupported("jnp.tile")
  j.take = _unsupported("jnp.take")
  j.argmax = _unsupported("jnp.argmax")
  j.argsort = _unsupported("jnp.argsort")
  j.sort = _unsupported("jnp.sort")
  j.cumsum = _unsupported("jnp.cumsum")
  j.linalg = NS(norm=T.norm, eigh=eigh, svd=svd, qr=qr, cholesky=cholesky, eigvalsh=lambda x: eigh(x)[0])
  return j


def _numpy_result(f):
  """Results of numpy functions are NumPy values (not jax arrays).  Built from python scalars only they are float64
  ('strong'): arithmetic between such a value and a restored float32 NumPy state leaf is carried out by NumPy in
  float64, whereas the same expression on the jax array of an uninterrupted run is float32 (tensor.ew reports it)."""

  def g(*a, **k):
    r = f(*a, **k)
    has_tensor = any(isinstance(x, Tensor) for x in pytree.flatten((a, k))[0])

    def tag(l):
      if isinstance(l, Tensor) and not has_tensor and l.dtype.kind == "f":
        l2 = Tensor(l.shape, l.dtype, l._fn, dict(l.tags))
        l2.tags["numpy_float64_value"] = getattr(f, "__name__", "np function")
        return l2
      return l

    return pytree.tree_map(tag, r)

  return g


def make_np(jnp):
  n = NS(**{k: (_numpy_result(v) if callable(v) and not isinstance(v, type) and not isinstance(v, T.DType) and k in (
      "where", "array", "asarray", "sqrt", "maximum", "minimum", "full", "ones", "zeros", "power", "float64", "exp", "log",
      "multiply", "add", "subtract", "divide", "abs", "square") else v) for k, v in jnp.__dict__.items()})
  n.random = NS(RandomState=_RandomState)
  n.round = lambda x: x if isinstance(x, (int, float)) else _round(x)
  n.sum = lambda x, *a, **k: T.rsum(x, *a, **k)
  return n


# ------------------------------------------------------------------ jax
def _select_tree(pred, a, b, what):
  la, ta = pytree.flatten(a)
  lb, tb = pytree.flatten(b)
  c = cur()
  if ta != tb:
    c.fail(f"cond-branch-structure@{getattr(c, 'site', '')}", kind="layout",
           detail=f"{ta} vs {tb}")
    raise PathEnd()
  out = []
  for x, y in zip(la, lb):
    out.append(_select_leaf(pred, x, y))
  return ta.unflatten(out)


def _select_leaf(pred, x, y):
  c = cur()
  if x is y:
    return x
  tx, ty = isinstance(x, Tensor), isinstance(y, Tensor)
  if tx or ty:
    x, y = T.asarray(x), T.asarray(y)
    if len(x.shape) != len(y.shape):
      c.fail(f"cond-branch-rank@{getattr(c, 'site', '')}", kind="layout",
             detail=f"{x.shape} vs {y.shape}")
      raise PathEnd()
    for dx, dy in zip(x.shape, y.shape):
      T.shape_compat(dx, dy, "cond-branch-shape")
    if tx and ty and x.dtype != y.dtype:
      c.fail(f"cond-branch-dtype@{getattr(c, 'site', '')}", kind="layout",
             detail=f"{x.dtype} vs {y.dtype}: lax.cond branches must have equal output types")
      raise PathEnd()
    if isinstance(pred, bool):
      return x if pred else y
    return T.ew(lambda a, b: OPS.where(pred, a, b), x, y, dtype=x.dtype)
  if isinstance(pred, bool):
    return x if pred else y
  return sym.ite(pred, x, y)


def _pred_scalar(pred):
  if isinstance(pred, Tensor):
    pred = pred.at((0,) * pred.ndim) if all(T._is_one(d) for d in pred.shape) else None
    if pred is None:
      raise Unsupported("non-scalar cond predicate")
  p = OPS.truth(pred)
  if isinstance(p, SBool):
    s = z3.simplify(p.z)
    if z3.is_true(s):
      return True
    if z3.is_false(s):
      return False
  return p


def lax_cond(pred, true_fun, false_fun, *operands, operand=None, **kw):
  """lax.cond: value selection; BOTH branches are traced (python effects of both happen)."""
  if operand is not None or (not operands and "operand" in kw):
    operands = (operand,)
  elif not operands and _takes_arg(true_fun):
    operands = (None,)
  p = _pred_scalar(pred)
  cur().axioms_used.add("lax.cond(p,f,g) = f() if p else g(); both branches are traced")
  operands = T.as_operands(tuple(operands))
  nm = lambda f: getattr(f, "__qualname__", None) or getattr(getattr(f, "func", None), "__qualname__", None) or "<fn>"
  # every branch is traced with its OWN copy of the operand pytree (fresh containers): an in-place mutation of a dict / list
  # operand in one branch must not be visible in the other
  fresh = lambda tr: pytree.tree_map(lambda l: l, tr)
  with T.traced_region("lax.cond:" + str(nm(true_fun))):
    rt = true_fun(*fresh(operands))
  with T.traced_region("lax.cond:" + str(nm(false_fun))):
    rf = false_fun(*fresh(operands))
  arr = lambda l: l if isinstance(l, Tensor) or l is None or not isinstance(l, (int, float, bool, sym.Sym)) else T.asarray(l)
  return _select_tree(p, pytree.tree_map(arr, rt), pytree.tree_map(arr, rf), "cond")


def _takes_arg(fn):
  node = getattr(fn, "node", None)
  if node is not None:
    a = node.args
    return len(a.args) - len(getattr(fn, "defaults", [])) > 0
  return False


WHILE_CAP = 64


def lax_while_loop(cond_fun, body_fun, init_val):
  from . import interp as I
  c = cur()
  q = getattr(body_fun, "__qualname__", None)
  lc = None
  it = getattr(body_fun, "interp", None)
  if it is not None:
    lc = it.loop_contracts.get(("lax.while_loop", q))
  # lax.while_loop turns every leaf of the carry into an array
  init_val = pytree.tree_map(lambda l: l if isinstance(l, Tensor) or l is None or not isinstance(l, (int, float, bool, sym.Sym)) else T.asarray(l), init_val)
  region = lambda st: T.traced_region("lax.while_loop:" + str(q))
  init_val = T.as_operands(init_val)
  if lc is None:
    state = init_val
    n = 0
    fresh = lambda tr: pytree.tree_map(lambda l: l, tr)
    while True:
      with region(state):
        go = bool(_pred_scalar(cond_fun(fresh(state))))
      if not go:
        break
      with region(state):
        state = body_fun(fresh(state))
      n += 1
      if n > WHILE_CAP:
        raise _ctx.EngineError(f"lax.while_loop over {q} needs an invariant")
    c.axioms_used.add("lax.while_loop = python while over the state")
    return state
  tag = f"{q}.while"
  env = {"state": init_val}
  c.oblige(f"{tag}.inv-entry", lc.inv(env, None), kind="invariant")
  if c.choose(tag):
    lc.havoc(env, None)
    c.assume(lc.inv(env, None))
    fresh = lambda tr: pytree.tree_map(lambda l: l, tr)
    with region(env["state"]):
      go = bool(_pred_scalar(cond_fun(fresh(env["state"]))))
    if not go:
      raise PathEnd()
    with region(env["state"]):
      env["state"] = body_fun(fresh(env["state"]))
    c.oblige(f"{tag}.inv-preserved", lc.inv(env, None), kind="invariant")
    raise PathEnd()
  lc.havoc(env, None)
  c.assume(lc.inv(env, None))
  if bool(_pred_scalar(cond_fun(env["state"]))):
    raise PathEnd()
  return env["state"]


class _Precision(enum.Enum):
  DEFAULT = 0
  HIGH = 1
  HIGHEST = 2


class PartitionSpec:
  """jax.sharding.PartitionSpec: a pytree LEAF with tuple-like access."""

  def __init__(self, *a):
    self._a = tuple(a)

  def __len__(self):
    return len(self._a)

  def __getitem__(self, i):
    r = self._a[i]
    return PartitionSpec(*r) if isinstance(i, slice) else r

  def __iter__(self):
    return iter(self._a)

  def __bool__(self):
    return bool(self._a)

  def __eq__(self, o):
    return isinstance(o, PartitionSpec) and o._a == self._a

  def __hash__(self):
    return hash(self._a)

  def __repr__(self):
    return "PartitionSpec" + repr(self._a)


def with_sharding_constraint(x, spec):
  c = cur()
  n = len(spec) if spec is not None else 0
  leaves, _ = pytree.flatten(x)
  for l in leaves:
    r = l.ndim if isinstance(l, Tensor) else 0
    if r < n:
      c.fail(f"sharding-constraint-rank@{getattr(c, 'site', '')}", kind="layout",
             detail=f"PartitionSpec of length {n} applied to a leaf of rank {r}")
      raise PathEnd()
  c.axioms_used.add("lax.with_sharding_constraint(x, spec) = x; needs rank(leaf) >= len(spec)")
  return x


def vmap(f, in_axes=0, out_axes=0):

  def mapped(*args, **kwargs):
    c = cur()
    c.axioms_used.add("jax.vmap(f)(xs)[b] = f(xs[b])")
    flat_args = list(args) + list(kwargs.values())
    names = list(kwargs.keys())
    ia = in_axes if isinstance(in_axes, (list, tuple)) else [in_axes] * len(args)
    ia = list(ia) + [0] * len(names)
    # batch size
    bsz = None
    for a, ax in zip(flat_args, ia):
      if ax is None:
        continue
      for l in pytree.flatten(a)[0]:
        if isinstance(l, Tensor):
          d = l.shape[ax]
          if bsz is None:
            bsz = d
          else:
            T.shape_compat(bsz, d, "vmap-batch")
    if bsz is None:
      raise Unsupported("vmap without a batched tensor argument")

    def slice_at(b):
      out = []
      for a, ax in zip(flat_args, ia):
        if ax is None:
          out.append(a)
        else:
          out.append(pytree.tree_map(
              lambda l: T.getitem(l, (slice(None),) * ax + (b,)) if isinstance(l, Tensor) else l, a))
      pos = out[:len(args)]
      kw = dict(zip(names, out[len(args):]))
      return pos, kw

    cache = {}

    def run(b):
      k = T._key((b,))
      if k not in cache:
        pos, kw = slice_at(b)
        cache[k] = f(*pos, **kw)
      return cache[k]

    b0 = SInt(c.fresh_int("b_vmap"))
    c.assume(sym.sand(b0 >= 0, b0 < bsz))
    r0 = run(b0)
    leaves0, td = pytree.flatten(r0)
    outs = []
    for li, l0 in enumerate(leaves0):
      l0 = T.asarray(l0)
      oa = out_axes if isinstance(out_axes, int) else 0
      shape = l0.shape[:oa] + (bsz,) + l0.shape[oa:]

      def fn(idx, li=li, oa=oa):
        b = idx[oa]
        r = run(b)
        leaf = T.asarray(pytree.flatten(r)[0][li])
        return leaf.at(idx[:oa] + idx[oa + 1:])

      outs.append(Tensor(shape, l0.dtype, fn))
    return td.unflatten(outs)

  return mapped


class _NamedScope:

  def __init__(self, *a, **k):
    pass

  def __enter__(self):
    return self

  def __exit__(self, *a):
    return False


def make_jax(jnp):
  tree = NS(map=pytree.tree_map, flatten=pytree.flatten,
            unflatten=lambda td, leaves: td.unflatten(leaves),
            leaves=lambda t, is_leaf=None: pytree.flatten(t, is_leaf)[0],
            structure=pytree.structure)
  tree_util = NS(tree_map=pytree.tree_map, tree_flatten=pytree.flatten,
                 tree_unflatten=lambda td, leaves: td.unflatten(leaves),
                 tree_map_with_path=pytree.tree_map_with_path,
                 tree_all=pytree.tree_all, tree_leaves=lambda t: pytree.flatten(t)[0],
                 tree_structure=pytree.structure)

  def psum(x, axis_name):
    c = cur()
    d = c.ghost.get(("axis_size", axis_name))
    if d is None:
      raise Unsupported("lax.psum outside a modelled pmap axis")
    c.axioms_used.add("under pmap over an axis of size D: lax.psum(1, axis) = D")
    return x * d

  def axis_index(axis_name):
    c = cur()
    r = c.ghost.get(("axis_index", axis_name))
    if r is None:
      raise Unsupported("lax.axis_index outside a modelled pmap axis")
    c.axioms_used.add("under pmap: lax.axis_index(axis) = r on replica r")
    return r

  def all_gather(x, axis_name):
    c = cur()
    g = c.ghost.get(("all_gather", axis_name))
    if g is None:
      raise Unsupported("lax.all_gather outside a modelled pmap axis")
    c.axioms_used.add("under pmap: lax.all_gather(v, axis)[r] = value of v on replica r")
    return g(x)

  def dynamic_slice_in_dim(x, start, size, axis=0):
    x = T.asarray(x)
    st = start.item() if isinstance(start, Tensor) else start
    # lax clamps the start index so that the slice stays in bounds
    d = x.shape[axis]
    st = sym.smax(0, sym.smin(st, d - size)) if isinstance(st, sym.Sym) or isinstance(d, sym.Sym) else max(0, min(st, d - size))
    sl = [slice(None)] * x.ndim
    sl[axis] = slice(st, st + size)
    return T.getitem(x, tuple(sl))

  def dynamic_index_in_dim(x, index, axis=0, keepdims=True):
    r = dynamic_slice_in_dim(x, index, 1, axis)
    return r if keepdims else T.squeeze(r, axis)

  def select(pred, a, b):
    return T.where(pred, a, b)

  lax = NS(dynamic_slice_in_dim=dynamic_slice_in_dim, dynamic_index_in_dim=dynamic_index_in_dim, select=select,
           stop_gradient=lambda x: x, cond=lax_cond, while_loop=lax_while_loop, Precision=_Precision,
           rsqrt=_rsqrt, with_sharding_constraint=with_sharding_constraint,
           psum=psum, axis_index=axis_index, all_gather=all_gather)
  j = NS(numpy=jnp, lax=lax, tree=tree, tree_util=tree_util, vmap=vmap,
         named_scope=_NamedScope, Array=Tensor,
         sharding=NS(PartitionSpec=PartitionSpec),
         scipy=NS(special=NS(logsumexp=_unsupported("logsumexp"))),
         experimental=NS(sparse=NS(linalg=NS(lobpcg_standard=_unsupported("lobpcg_standard")))))
  return j


# ------------------------------------------------------------------ flax / optax / chex
def struct_field(pytree_node=True, **kw):
  md = dict(kw.pop("metadata", {}) or {})
  md["pytree_node"] = pytree_node
  return dataclasses.field(metadata=md, **kw)


def struct_dataclass(cls=None, **kw):

  def wrap(c):
    d = dataclasses.dataclass(frozen=True)(c)
    d._pyvc_struct = True

    def replace(self, **updates):
      return dataclasses.replace(self, **updates)

    d.replace = replace
    return d

  return wrap if cls is None else wrap(cls)


class MaskedNode(typing.NamedTuple):
  pass


class EmptyState(typing.NamedTuple):
  pass


class GradientTransformation(typing.NamedTuple):
  init: typing.Any
  update: typing.Any


class TraceState(typing.NamedTuple):
  trace: typing.Any


class ScaleState(typing.NamedTuple):
  pass


class ScaleByScheduleState(typing.NamedTuple):
  count: typing.Any


class MaskedState(typing.NamedTuple):
  inner_state: typing.Any


class AddDecayedWeightsState(typing.NamedTuple):
  pass


def _ox_identity():
  return GradientTransformation(lambda params: EmptyState(), lambda u, s, p=None: (u, s))


def _ox_scale(step_size):
  cur_ = step_size

  def update(updates, state, params=None):
    return pytree.tree_map(lambda g: cur_ * g, updates), state

  return GradientTransformation(lambda params: ScaleState(), update)


def _ox_scale_by_schedule(step_size_fn):

  def init(params):
    return ScaleByScheduleState(count=T.zeros((), T.int32))

  def update(updates, state, params=None):
    s = step_size_fn(state.count)
    return pytree.tree_map(lambda g: s * g, updates), ScaleByScheduleState(count=state.count + 1)

  return GradientTransformation(init, update)


def _ox_trace(decay, nesterov=False, accumulator_dtype=None):

  def init(params):
    return TraceState(trace=pytree.tree_map(_zeros_like, params))

  def update(updates, state, params=None):
    f = lambda g, t: g + decay * t
    new_trace = pytree.tree_map(f, updates, state.trace)
    upd = pytree.tree_map(f, updates, new_trace) if nesterov else new_trace
    return upd, TraceState(trace=new_trace)

  return GradientTransformation(init, update)


def _ox_add_decayed_weights(weight_decay=0.0, mask=None):

  def update(updates, state, params=None):
    if params is None:
      raise ValueError("add_decayed_weights requires params")
    return pytree.tree_map(lambda g, p: g + weight_decay * p, updates, params), state

  return GradientTransformation(lambda params: AddDecayedWeightsState(), update)


def _ox_chain(*txs):

  def init(params):
    return tuple(t.init(params) for t in txs)

  def update(updates, state, params=None):
    new = []
    for s, t in zip(state, txs):
      updates, ns = t.update(updates, s, params)
      new.append(ns)
    return updates, tuple(new)

  return GradientTransformation(init, update)


def _ox_global_norm(tree):
  """optax.global_norm: sqrt of the sum of squares over ALL array leaves of the tree."""
  leaves = [l for l in pytree.flatten(tree)[0] if isinstance(l, Tensor)]
  tot = 0.0
  for l in leaves:
    nl = T.norm(l)
    tot = tot + nl * nl
  cur().axioms_used.add("optax.global_norm(tree) = sqrt(sum over leaves of |leaf|^2)")
  return _sqrt(T.asarray(tot))


def make_optax():
  return NS(global_norm=_ox_global_norm, MaskedNode=MaskedNode, EmptyState=EmptyState, GradientTransformation=GradientTransformation,
            TraceState=TraceState, MaskedState=MaskedState, identity=_ox_identity, scale=_ox_scale,
            scale_by_schedule=_ox_scale_by_schedule, trace=_ox_trace,
            add_decayed_weights=_ox_add_decayed_weights, chain=_ox_chain,
            adafactor=_unsupported("optax.adafactor"), Updates=typing.Any, Params=typing.Any,
            OptState=typing.Any, TransformInitFn=typing.Any, TransformUpdateFn=typing.Any,
            Schedule=typing.Any)


class _Flag:

  def __init__(self, v):
    self.value = v


def make_libs():
  jnp = make_jnp()
  np_ = make_np(jnp)
  jax = make_jax(jnp)
  optax = make_optax()
  logging = NS(info=lambda *a, **k: None, warning=lambda *a, **k: None, error=lambda *a, **k: None,
               debug=lambda *a, **k: None)
  flags = NS(DEFINE_string=lambda n, d, h: _Flag(d), DEFINE_multi_integer=lambda n, d, h: _Flag(d),
             DEFINE_bool=lambda n, d, h: _Flag(d), DEFINE_integer=lambda n, d, h: _Flag(d))
  chex = NS(Array=Tensor, ArrayTree=typing.Any, Numeric=typing.Any)
  libs = {
      "jax": jax,
      "jax.numpy": jnp,
      "jax.lax": jax.lax,
      "jax.experimental.sparse": jax.experimental.sparse,
      "jax.experimental": jax.experimental,
      "numpy": np_,
      "optax": optax,
      "chex": chex,
      "flax": NS(struct=NS(dataclass=struct_dataclass, field=struct_field),
                 training=NS(checkpoints=NS())),
      "flax.struct": NS(dataclass=struct_dataclass, field=struct_field),
      "flax.training": NS(checkpoints=NS()),
      "absl": NS(logging=logging, flags=flags, app=NS(run=lambda m: None)),
      "logging": logging,
      "enum": enum,
      "functools": functools,
      "itertools": itertools,
      "math": math,
      "string": string,
      "copy": _copy,
      "dataclasses": dataclasses,
      "typing": typing,
      "concurrent": NS(),
      "os": NS(),
  }
  return libs
