"""Spec-level helpers used by contracts (ghost functions over sequences etc.)."""
from __future__ import annotations

import z3

from . import seq as S
from . import sym
from .sym import SBool, SInt, cur


def fresh_int(name, lo=None, hi=None):
  c = cur()
  v = SInt(c.fresh_int(name))
  if lo is not None:
    c.assume(v >= lo)
  if hi is not None:
    c.assume(v <= hi)
  return v


def fresh_real(name, lo=None, hi=None):
  c = cur()
  v = sym.SReal(c.fresh_real(name))
  if lo is not None:
    c.assume(v >= lo)
  if hi is not None:
    c.assume(v <= hi)
  return v


def fresh_bool(name):
  return SBool(cur().fresh_bool(name))


def fresh_seq(name, each=None, elem="int", length=None):
  """Fresh symbolic-length sequence; `each(v, k)` is assumed lazily at every evaluated index."""
  s = S.SSeq.fresh(name, elem)
  if length is not None:
    cur().assume(s.n == length)
    s.n = length if isinstance(length, sym.Sym) else SInt(z3.IntVal(length))
  if each is not None:
    base = s._at
    seen = set()

    def at(k):
      v = base(k)
      kid = sym._as_int_z(k).get_id()
      if kid not in seen:
        seen.add(kid)
        kk = k if isinstance(k, sym.Sym) else SInt(z3.IntVal(k))
        cur().assume(sym.implies(sym.sand(kk >= 0, kk < s.n), each(v, kk)))
      return v

    s._at = at
  return s


def slen(x):
  return S.b_len(x)


def sat(x, j):
  if hasattr(x, "_pyvc_at"):
    return x._pyvc_at(j)
  return S.list_getitem(x, j)


def sprod(x):
  if isinstance(x, S.SList):
    return x.prod()
  if isinstance(x, S.SSeq):
    return prefix_prod(x, x.n)
  r = 1
  for v in x:
    r = r * v
  return r


def prefix_prod(x, i):
  fn = S._prefix_fn(x, "prod")
  im1 = i - 1
  fn.unfold(i)
  fn.unfold(im1)
  return fn(i)


def prefix_sum(x, i):
  fn = S._prefix_fn(x, "sum")
  fn.unfold(i)
  fn.unfold(i - 1)
  return fn(i)


def forall_elems(x, pred, name="j"):
  """∀j<len(x). pred(x[j], j) as a claim: Skolemised at a fresh index (or a
  conjunction for concrete lists).  For SList the concrete suffix is expanded."""
  if isinstance(x, (list, tuple)):
    return sym.sand(*[pred(v, j) for j, v in enumerate(x)])
  c = cur()
  if isinstance(x, S.SList):
    j = SInt(c.fresh_int(name))
    pre = sym.implies(sym.sand(j >= 0, j < x.prefix.n), pred(x.prefix._pyvc_at(j), j))
    suf = [pred(v, x.prefix.n + i) for i, v in enumerate(x.suffix)]
    return sym.sand(pre, *suf)
  j = SInt(c.fresh_int(name))
  n = x._pyvc_symlen()
  return sym.implies(sym.sand(j >= 0, j < n), pred(x._pyvc_at(j), j))


def exists_index(lo, hi, pred):
  """∃w. lo<=w<hi ∧ pred(w) as a z3 existential (claims only)."""
  c = cur()
  w = z3.Int(c.fresh_name("w_ex"))
  body = sym.sand(SInt(w) >= lo, SInt(w) < hi, pred(SInt(w)))
  return SBool(z3.Exists([w], body.z))
