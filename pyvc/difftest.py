"""Interpreter + library-model differential test (DESIGN 4.1 / A.7): the real repository functions are executed by
pyvc on CONCRETE inputs and compared with the native results produced by native/difftest_native.py.  A disagreement
is an engine defect (exit 3), never a property verdict."""
from __future__ import annotations

import itertools
import json

import numpy as np

from . import ctx as C
from . import harness as H
from . import sym
from . import tensor as T


def to_list(x):
  """Concrete nested-list value of a pyvc result."""
  if isinstance(x, T.Tensor):
    shape = [sym.concretize(d) if isinstance(d, sym.Sym) else int(d) for d in x.shape]
    if not shape:
      return conc(x.at(()))
    out = np.zeros(shape, dtype=object)
    for idx in itertools.product(*[range(d) for d in shape]):
      out[idx] = conc(x.at(idx))
    return out.tolist()
  if isinstance(x, (list, tuple)):
    return [to_list(v) for v in x]
  return conc(x)


def conc(v):
  if isinstance(v, bool):
    return v
  if isinstance(v, sym.SBool):
    import z3
    s = z3.simplify(v.z)
    if z3.is_true(s) or z3.is_false(s):
      return z3.is_true(s)
    raise C.EngineError("symbolic value in a concrete run")
  if isinstance(v, sym.SInt):
    c = sym.concretize(v)
    if c is None:
      raise C.EngineError("symbolic value in a concrete run")
    return c
  if isinstance(v, sym.SReal):
    import z3
    s = z3.simplify(v.z)
    if z3.is_rational_value(s):
      return float(s.numerator_as_long()) / float(s.denominator_as_long())
    raise C.EngineError("symbolic value in a concrete run")
  if hasattr(v, "item") and not isinstance(v, (int, float)):
    return v.item()
  return v


def arr(shape):
  n = int(np.prod(shape)) if shape else 1
  return T.asarray(np.arange(1, n + 1, dtype=np.float32).reshape(shape))


def same(a, b, tol=1e-6):
  if isinstance(a, (list, tuple)) or isinstance(b, (list, tuple)):
    return isinstance(a, (list, tuple)) and isinstance(b, (list, tuple)) and len(a) == len(b) and all(same(x, y) for x, y in zip(a, b))
  if isinstance(a, bool) or isinstance(b, bool):
    return bool(a) == bool(b)
  return abs(float(a) - float(b)) <= tol * max(1.0, abs(float(b)))


def run(seed=0):
  """Returns (number of cases, list of disagreements)."""
  res = H.native_oracle("difftest", "quick", script="difftest_native.py", extra_args=[str(seed)])
  if isinstance(res, dict) and res.get("error"):
    return 0, [("native side failed", res["error"][:300])]
  cases = res
  it = H.make_interp()
  bad = []
  n = 0

  def driver(ctx):
    nonlocal n
    ds = it.load_module("precondition.distributed_shampoo")
    rs = it.load_module("precondition.tearfree.reshaper")
    ts = it.load_module("precondition.tearfree.shampoo")
    for c in cases:
      n += 1
      fn, a, want = c["fn"], c["args"], c["out"]
      try:
        if fn == "merge_small_dims":
          got = to_list(ds.merge_small_dims(a[0], a[1]))
        elif fn == "_precond_dim":
          got = conc(ds._precond_dim(a[0], a[1]))
        elif fn == "_should_compress":
          got = conc(ds._should_compress(a[0], a[1]))
        elif fn == "BlockPartitioner":
          x = arr(a[0])
          bp = ds.BlockPartitioner(x, a[1])
          parts = bp.partition(x)
          got = {"sizes": [to_list(s) for s in bp.split_sizes()], "parts": [to_list(p) for p in parts],
                 "merged": to_list(bp.merge_partitions(parts))}
        elif fn == "Preconditioner":
          pre = ds.Preconditioner(arr(a[0]), a[1], 4, True, ds.PreconditionerType(a[2]), a[3])
          got = {"shapes": [[conc(p), conc(q)] for p, q in pre.shapes_for_preconditioners()],
                 "should": [bool(b) for b in pre.should_precondition_dims()], "exponent": conc(pre.exponent_for_preconditioner())}
        elif fn == "reshaper":
          x = arr(a[0])
          opts = rs.Options(a[1], a[2])
          sh = rs._derive_shapes(opts, x)
          y, _ = rs.merge(opts).update(x, None, x)
          z, _ = rs.unmerge(opts).update(y, None, x)
          got = {"merged": [conc(v) for v in sh.merged_shape], "padded": [conc(v) for v in sh.padded_shape], "y": to_list(y), "z": to_list(z)}
        elif fn == "blockify":
          x = arr(a[0])
          meta = ts._blocks_metadata(ts.Options(block_size=a[1]), x.shape, "p")
          y = ts._blockify(x, meta)
          got = {"num_blocks": conc(meta.num_blocks), "block_sizes": [conc(v) for v in meta.block_sizes],
                 "blocks_axis": conc(meta.blocks_axis), "y": to_list(y), "z": to_list(ts._deblockify(y, meta))}
        elif fn == "batch":
          d, b = a
          xs = [arr((2, 2)) * (k + 1) for k in range(d * b)]
          bt = ds.batch(xs, d)
          got = {"batched": to_list(bt), "unbatched": [to_list(v) for v in ds.unbatch(bt)]}
        elif fn == "pack":
          d, r = a
          V, e, ie = arr((d, r)), arr((r,)), arr((r,)) * 10
          p = ds._fd_low_rank_pack(V, e, ie, 3.5, 2.5, True, -r)
          got = {"packed": to_list(p), "unpacked": [to_list(v) for v in ds._fd_low_rank_unpack(p, r)]}
        else:
          continue
      except Exception as e:  # pylint: disable=broad-except
        bad.append((fn, a, f"pyvc raised {type(e).__name__}: {str(e)[:200]}"))
        continue
      ok = all(same(got[k], want[k]) for k in want) if isinstance(want, dict) else same(got, want)
      if not ok:
        bad.append((fn, a, f"pyvc {json.dumps(got)[:200]} != native {json.dumps(want)[:200]}"))

  r = C.run_paths(driver)
  if r.error:
    bad.append(("engine", [], r.error))
  return n, bad


if __name__ == "__main__":
  import sys
  n, bad = run(int(sys.argv[1]) if len(sys.argv) > 1 else 0)
  print(n, "cases;", len(bad), "disagreements")
  for b in bad[:10]:
    print(b)
