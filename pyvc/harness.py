"""Task runner, verdicts, evidence (DESIGN 5, 10)."""
from __future__ import annotations

import hashlib
import importlib
import json
import multiprocessing as mp
import os
import subprocess
import sys
import time
import traceback

from . import ctx as _ctx
from . import interp as I
from . import libs as L
from . import seq

VERIF = os.path.dirname(os.path.dirname(os.path.abspath(__file__)))
REPO = I.REPO


def make_interp(overrides=None):
  it = I.Interp(L.make_libs(), source_overrides=overrides)
  it.builtins.update(seq.BUILTINS)
  return it


class Task:

  def __init__(self, name, fn, tier="quick", expect=None, note=""):
    self.name = name
    self.fn = fn  # fn(ctx, interp)
    self.tier = tier
    self.note = note


_TASKS = []
_OUTDIR = None
_OVERRIDES = None


def _run_one(i):
  task = _TASKS[i]
  t0 = time.time()
  out = {"task": task.name, "obligations": [], "paths": 0, "axioms": [], "assumes": [],
         "functions": {}, "error": None, "undecided": None, "secs": 0.0, "events": []}
  try:
    interp = make_interp(_OVERRIDES)

    def driver(ctx):
      task.fn(ctx, interp)

    res = _ctx.run_paths(driver, outdir=_OUTDIR, label=task.name)
    out["obligations"] = [o.as_dict() for o in res.obligations]
    out["paths"] = res.paths
    out["axioms"] = sorted(res.axioms)
    out["assumes"] = sorted(res.assumes)
    out["error"] = res.error
    out["undecided"] = res.undecided
    out["events"] = res.events[:50]
    out["functions"] = {f"{m}:{q}": sha for (m, q), sha in interp.used_functions.items()}
  except _ctx.Undecided as e:
    out["undecided"] = str(e)
  except Exception as e:  # pylint: disable=broad-except
    out["error"] = f"{type(e).__name__}: {e}\n" + traceback.format_exc()[-2000:]
  out["secs"] = time.time() - t0
  try:
    with open(os.path.join(_OUTDIR or "/tmp", "progress.log"), "a") as fh:
      slow = [(o["name"], o["status"], round(o["secs"], 1), o["backend"]) for o in out["obligations"]
              if o["secs"] > 5 or o["status"] != "unsat"][:6]
      fh.write(f"{task.name}\t{out['secs']:.1f}s\tpaths={out['paths']}\tobl={len(out['obligations'])}\t{slow}\t{(out['error'] or '')[:200]!r}\n")
  except OSError:
    pass
  return out


def env_overrides():
  """PYVC_MUTATE='module::old::new' applies an in-memory source mutation (self-tests only)."""
  spec_ = os.environ.get("PYVC_MUTATE")
  if not spec_:
    return None
  mod, old, new = spec_.split("::")
  path = make_interp().module_path(mod)
  text = open(path).read()
  if text.count(old) < 1:
    raise SystemExit(f"mutation target not found in {mod}: {old!r}")
  return {mod: text.replace(old, new, 1)}


def run_tasks(tasks, outdir, jobs=None, overrides=None):
  global _TASKS, _OUTDIR, _OVERRIDES
  if overrides is None:
    overrides = env_overrides()
  _TASKS = tasks
  _OUTDIR = outdir
  _OVERRIDES = overrides
  os.makedirs(outdir, exist_ok=True)
  try:
    os.unlink(os.path.join(outdir, "progress.log"))
  except OSError:
    pass
  jobs = jobs or min(16, max(1, len(tasks)))
  if jobs == 1 or len(tasks) == 1:
    return [_run_one(i) for i in range(len(tasks))]
  ctxm = mp.get_context("fork")
  with ctxm.Pool(jobs) as pool:
    return pool.map(_run_one, range(len(tasks)), chunksize=1)


# ------------------------------------------------------------------ known findings
def load_known():
  p = os.path.join(VERIF, "known_findings.json")
  if not os.path.exists(p):
    return {"known": [], "fixed": []}
  with open(p) as fh:
    return json.load(fh)


def native(script_args, timeout=600, env_extra=None):
  """Runs a native replay under /venv/bin/python against /repo."""
  env = dict(os.environ)
  env["PYTHONPATH"] = REPO
  env["JAX_PLATFORMS"] = "cpu"
  env.pop("PYVC_REPO", None)
  if env_extra:
    env.update(env_extra)
  try:
    p = subprocess.run(["/venv/bin/python"] + script_args, capture_output=True, text=True,
                       timeout=timeout, env=env, cwd=VERIF)
    return p.returncode, p.stdout, p.stderr
  except subprocess.TimeoutExpired:
    return 124, "", "timeout"


# ------------------------------------------------------------------ check driver
def finish_check(pid, tier, results, t0, *, checker_cmd, not_covered, trusted_extra=(),
                 replay=None, bounded=None, extra=None, structural=None, min_obligations=1,
                 known_confirm=None):
  """Aggregates task results into a verdict; writes evidence; returns exit code.

  replay(ob_record, task_name) -> (path, found: bool) concretises a failed obligation natively.
  """
  seed = int(os.environ.get("VERIF_SEED", "0"))
  outdir = os.path.join(VERIF, "out", pid)
  os.makedirs(outdir, exist_ok=True)
  obligations = 0
  discharged = 0
  failed = []
  unknown = []
  errors = []
  undecided = []
  by_backend = {}
  axioms = set(trusted_extra)
  assumes = set()
  functions = {}
  samples = []
  paths = 0
  kinds = {}
  for r in results:
    paths += r["paths"]
    axioms |= set(r["axioms"])
    assumes |= set(r["assumes"])
    functions.update(r["functions"])
    if r["error"]:
      errors.append((r["task"], r["error"]))
    if r["undecided"]:
      undecided.append((r["task"], r["undecided"]))
    for o in r["obligations"]:
      obligations += 1
      kinds[o["kind"]] = kinds.get(o["kind"], 0) + 1
      b = by_backend.setdefault(o["backend"], {"count": 0, "secs": 0.0})
      b["count"] += 1
      b["secs"] += o["secs"]
      if o["status"] == "unsat":
        discharged += 1
        if len(samples) < 6 and o["backend"] != "simplify":
          samples.append({"task": r["task"], "obligation": o["name"], "kind": o["kind"],
                          "detail": o["detail"], "smt2": _rel(o["smt2"]), "backend": o["backend"],
                          "secs": round(o["secs"], 4)})
      elif o["status"] == "sat":
        failed.append((r["task"], o))
      else:
        unknown.append((r["task"], o))

  known = load_known()
  lines = []
  violations = 0
  known_hit = []
  groups = {}
  for task, o in failed:
    k = _match_known(known, pid, task, o)
    if k is not None:
      known_hit.append(k)
      continue
    base = o["name"].split("~")[0]
    groups.setdefault(base, []).append((task, o))
  oracle = None
  if groups and replay is not None:
    try:
      oracle = replay()
    except Exception as e:  # pylint: disable=broad-except
      oracle = {"error": repr(e), "violations": []}
  for base, items in groups.items():
    task, o = items[0]
    path = os.path.join(outdir, "replay_" + _ctx._safe(base) + ".json")
    rec = {"property": pid, "obligation": base, "kind": o["kind"], "detail": o["detail"],
           "tasks": sorted({t for t, _ in items})[:40], "model": o["model"], "smt2": _rel(o["smt2"]),
           "solver": o["backend"], "solver_output": "sat (negated VC satisfiable)",
           "functions": {k2: v for k2, v in functions.items() if k2.split(":")[-1].split(".<locals>.")[-1] in base or True}}
    found = False
    if oracle is not None:
      hits = [v for v in oracle.get("violations", []) if _related(v.get("function", ""), base)]
      if not hits:
        hits = oracle.get("violations", [])[:3]
        rec["native_note"] = "native oracle violations below are not matched by name to this obligation"
      rec["native"] = {"oracle_cases": oracle.get("cases"), "bound": oracle.get("bound"),
                       "failing_inputs": hits, "error": oracle.get("error")}
      found = bool(hits)
    with open(path, "w") as fh:
      json.dump(rec, fh, indent=1, default=str)
    violations += 1
    tail = "" if found else " no-failing-input-found"
    lines.append(f"VIOLATION property={pid} replay={path}{tail}")
  if not groups and (errors or unknown or undecided) and replay is not None:
    # the deductive side could not decide (engine limit / contract to be extended / solver unknown): the native oracle of
    # the property is consulted; a failing input on the real code is a violation, its absence leaves the verdict undecided
    try:
      oracle = replay()
    except Exception as e:  # pylint: disable=broad-except
      oracle = {"error": repr(e), "violations": []}
    hits = (oracle or {}).get("violations", []) if isinstance(oracle, dict) else []
    hits = [h for h in hits if not any(k["property"] == pid and k.get("native_match") and k["native_match"] in json.dumps(h)
                                       for k in known["known"])]
    if hits:
      path = os.path.join(outdir, "replay_native_oracle_while_undecided.json")
      with open(path, "w") as fh:
        json.dump({"property": pid, "obligation": "undecided: " + "; ".join([str(u)[:200] for u in (undecided or [])][:3] +
                                                                            [str(e_)[:200] for e_ in (errors or [])][:3] +
                                                                            [o["name"] for _, o in unknown][:3]),
                   "native": {"oracle_cases": oracle.get("cases"), "bound": oracle.get("bound"), "failing_inputs": hits[:5]}},
                  fh, indent=1, default=str)
      violations += 1
      lines.append(f"VIOLATION property={pid} replay={path}")
  # known findings that are re-confirmed natively
  kf_lines = []
  if known_confirm is not None:
    for k in known["known"]:
      if k["property"] != pid:
        continue
      ok, what = known_confirm(k)
      if ok:
        kf_lines.append(f"KNOWN-FINDING: property={pid} {k['what']}")
      else:
        kf_lines.append(f"NOTE: known finding no longer reproduces natively: {k['what']} ({what})")
  bounded = bounded or []
  bounded_fail = [b for b in bounded if not b.get("passed", False) and not b.get("known") and b.get("violations")]
  for b in bounded:
    if not b.get("passed", False) and not b.get("violations") and b.get("error"):
      # the bounded stand-in did not RUN (crash, out of memory, time-out): never a verdict about the property
      errors.append((b.get("name", "bounded check"), "bounded stand-in did not run: " + str(b["error"])[-300:]))
  for b in bounded_fail:
    violations += 1
    path = os.path.join(outdir, "replay_bounded_" + _ctx._safe(b["name"]) + ".json")
    with open(path, "w") as fh:
      json.dump(b, fh, indent=1, default=str)
    lines.append(f"VIOLATION property={pid} replay={path}")
  for b in bounded:
    for kl in b.get("known_lines", []):
      kf_lines.append(kl)

  if violations:
    code = 1          # a failed obligation / failing native input is a violation even if other tasks hit an engine limit
  elif errors:
    code = 3
  elif unknown or undecided:
    code = 2
  elif obligations < min_obligations:
    code = 3
    errors.append(("guard", f"only {obligations} obligations generated (< {min_obligations})"))
  else:
    code = 0

  cov = {
      "obligations": obligations,
      "discharged": discharged,
      "checker_cmd": checker_cmd,
      "trusted_base": sorted(axioms),
      "paths_explored": paths,
      "by_backend": {k: {"count": v["count"], "secs": round(v["secs"], 3)} for k, v in by_backend.items()},
      "by_kind": kinds,
      "functions_under_contract": [{"function": k, "source_sha256": v} for k, v in sorted(functions.items())],
      "samples": samples or [{"note": "no solver-checked obligation to sample"}],
      "structural_instances": structural or [],
      "bounded_checks": [{k: v for k, v in b.items() if k != "log"} for b in bounded],
      "known_findings_confirmed": kf_lines,
      "failed": [{"task": t, "obligation": o["name"], "detail": o["detail"]} for t, o in failed][:40],
      "undecided": [{"task": t, "obligation": o["name"]} for t, o in unknown][:40] +
                   [{"task": t, "reason": u} for t, u in undecided][:40],
      "engine_errors": [{"task": t, "error": e[:600]} for t, e in errors][:20],
      "not_covered": not_covered,
      "exit_code": code,
  }
  if extra:
    cov.update(extra)
  ev = {
      "property_id": pid,
      "tier": tier,
      "seed": seed,
      "level": "proof",
      "coverage": cov,
      "assumptions": sorted(assumes | {
          "library contracts (trusted_base) are axioms; z3/cvc5 are trusted",
      }),
      "wall_s": round(time.time() - t0, 2),
      "violations": violations,
  }
  evdir = os.path.join(VERIF, "evidence")
  if os.environ.get("PYVC_MUTATE"):
    # self-test runs under an in-memory mutation must not overwrite the real evidence
    evdir = os.path.join(VERIF, "out", "mutant_evidence")
  if os.environ.get("PYVC_EVIDENCE_DIR"):
    # seeded-change evaluation (tools/seed_eval.sh) runs against a deliberately broken /repo
    evdir = os.environ["PYVC_EVIDENCE_DIR"]
  os.makedirs(evdir, exist_ok=True)
  with open(os.path.join(evdir, pid + ".json"), "w") as fh:
    json.dump(ev, fh, indent=1, default=str)
  for l in kf_lines:
    print(l)
  for l in lines:
    print(l)
  for t, o in unknown:
    print(f"UNDECIDED property={pid} task={t} obligation={o['name']} (solver unknown)")
  for t, u in undecided:
    print(f"UNDECIDED property={pid} task={t} {u}")
  for t, e in errors:
    print(f"ENGINE-ERROR property={pid} task={t}: {e.strip().splitlines()[0] if e.strip() else e}")
    if os.environ.get("PYVC_DEBUG"):
      print(e)
  print(f"{pid} [{tier}]: obligations={obligations} discharged={discharged} failed={len(failed)} "
        f"unknown={len(unknown)} paths={paths} tasks={len(results)} bounded={len(bounded)} "
        f"wall={time.time()-t0:.1f}s exit={code}")
  return code


def _related(fn_name, oblig):
  parts = [p for p in fn_name.replace("(", ".").replace(")", ".").split(".") if len(p) > 3]
  return any(p in oblig for p in parts)


_ORACLE_CACHE = {}


def native_oracle(pid, tier="quick", timeout=3000, extra_args=(), script=None):
  """Runs native/<pid>.py (or the named script) under /venv/bin/python against /repo; returns its JSON."""
  key = (pid, tier, tuple(extra_args), script)
  if key in _ORACLE_CACHE:
    return _ORACLE_CACHE[key]
  if script is None:
    script = os.path.join(VERIF, "native", pid.lower() + ".py")
    args = [script, tier] + list(extra_args)
  else:
    args = [os.path.join(VERIF, "native", script)] + list(extra_args)
  rc, out, err = native(args, timeout=timeout)
  if rc not in (0, 1) and not any(l.strip().startswith(("{", "[{")) for l in out.strip().splitlines()[-3:]):
    # crashed (e.g. XLA 'Cannot allocate memory' under load): one retry after a pause
    time.sleep(20)
    rc, out, err = native(args, timeout=timeout)
  res = None
  for line in reversed(out.strip().splitlines()):
    line = line.strip()
    if line.startswith("{") or line.startswith("[{"):
      try:
        res = json.loads(line)
        break
      except ValueError:
        continue
  if res is None:
    res = {"error": f"native oracle failed rc={rc}: {err[-800:]}", "violations": [], "cases": 0}
  _ORACLE_CACHE[key] = res
  return res


def bounded_from_oracle(name, res, known=None):
  """Turns a native-oracle result into a bounded_checks record."""
  viol = res.get("violations", [])
  known_lines = []
  unknown_viol = []
  for v in viol:
    k = None
    for kk in (known or []):
      if kk.get("native_match") and kk["native_match"] in json.dumps(v):
        k = kk
    if k is None:
      unknown_viol.append(v)
    else:
      known_lines.append(f"KNOWN-FINDING: property={k['property']} {k['what']}")
  return {"name": name, "bounded": True, "bound": res.get("bound", ""), "cases": res.get("cases", 0),
          "passed": not unknown_viol and not res.get("error"), "violations": unknown_viol[:10],
          "error": res.get("error"), "known_lines": sorted(set(known_lines))}


def _rel(p):
  if not p:
    return p
  try:
    return os.path.relpath(p, VERIF)
  except ValueError:
    return p


def _match_known(known, pid, task, o):
  for k in known.get("known", []):
    if k["property"] == pid and k.get("obligation") and k["obligation"] in o["name"] and \
        (not k.get("task") or k["task"] in task):
      return k
  return None


def lean_lemmas():
  """Thorough tier: machine-check the cited elementary lemmas (lemmas/Spec.lean) with the installed Lean + Mathlib.
  Returns a dict for the evidence file; a failing lemma file is an engine error, never a property verdict."""
  import shutil
  import subprocess
  exe = shutil.which("lean")
  f = os.path.join(VERIF, "lemmas", "Spec.lean")
  if exe is None:
    return {"checked": False, "reason": "lean not on PATH"}
  t0 = time.time()
  try:
    r = subprocess.run([exe, f], capture_output=True, text=True, timeout=1800)
  except subprocess.TimeoutExpired:
    return {"checked": False, "reason": "lean timed out"}
  return {"checked": r.returncode == 0, "returncode": r.returncode, "secs": round(time.time() - t0, 1),
          "output": (r.stdout + r.stderr)[-600:], "file": "lemmas/Spec.lean"}


def standard_main(pid, tier, tasks, *, not_covered, structural, trusted_extra=(), oracle=True,
                  extra=None, min_obligations=1, extra_bounded=None):
  """Common check driver: run tasks, native oracle as replay (and as a bounded stand-in in the thorough tier)."""
  t0 = time.time()
  results = run_tasks(tasks, os.path.join(VERIF, "out", pid))
  bounded = list(extra_bounded or [])
  known = [k for k in load_known().get("known", []) if k["property"] == pid]
  has_oracle = oracle and os.path.exists(os.path.join(VERIF, "native", pid.lower() + ".py"))
  if has_oracle and (tier == "thorough" or known):
    res = native_oracle(pid, tier)
    bounded.append(bounded_from_oracle(
        f"native oracle of {pid} on the real code (bounded stand-in / known-finding confirmation; not counted as proved)",
        res, known))
  return finish_check(pid, tier, results, t0, checker_cmd=f"./verify {pid} --tier {tier}",
                      not_covered=not_covered, structural=structural, trusted_extra=trusted_extra,
                      replay=(lambda: native_oracle(pid, "quick")) if has_oracle else None,
                      bounded=bounded, extra=extra, min_obligations=min_obligations)
