"""Meta-circular symbolic interpreter over the real Python AST of /repo.

Interpreted functions are ordinary Python callables (IFunction.__call__), so
CPython's own builtins / functools / itertools / dataclasses / enum /
NamedTuple machinery is reused for everything concrete; symbolic values are
wrapper objects (sym.py, tensor.py, seq.py) whose __bool__ forks the path.

What the extraction drops (DESIGN 3.6): docstrings, annotations (names kept
for dataclass / NamedTuple field order), decorators other than
classmethod/staticmethod/property/dataclass/struct.dataclass/enum.unique,
`with jax.named_scope(...)` (body executed), logging/print (no-ops).
"""
from __future__ import annotations

import ast
import builtins
import hashlib
import os
import types
import typing

from . import ctx as _ctx
from . import sym
from .ctx import EngineError, PathEnd, Undecided, Unsupported

REPO = os.environ.get("PYVC_REPO", "/repo")


class _Return(Exception):

  def __init__(self, value):
    self.value = value


class _Break(Exception):
  pass


class _Continue(Exception):
  pass


class Cell:
  __slots__ = ("v",)


_UNBOUND = object()


class Env:
  __slots__ = ("vars", "parent", "locals", "func", "globals", "nonlocals",
               "kind", "qual")

  def __init__(self, parent, kind, qual="", locals_=None):
    self.vars = {}
    self.parent = parent
    self.kind = kind  # 'module' | 'function' | 'class' | 'comp'
    self.locals = locals_ or set()
    self.globals = set()
    self.nonlocals = set()
    self.qual = qual

  def module_env(self):
    e = self
    while e.parent is not None:
      e = e.parent
    return e

  def lookup(self, name, interp):
    e = self
    first = True
    while e is not None:
      if e.kind == "class" and not first:
        e = e.parent
        continue
      if e.kind in ("function", "comp") and name in e.locals \
          and name not in e.globals and name not in e.nonlocals:
        if name in e.vars:
          v = e.vars[name]
          if isinstance(v, _Unhavoced):
            raise Undecided(f"loop contract of {v.tag} does not havoc the loop-carried variable '{v.name}' (the body assigns it "
                            "and reads it before assigning it): the contract must be extended")
          return v
        # unbound local: CPython raises UnboundLocalError
        c = _ctx.CUR
        if c is not None:
          c.fail(f"defined:{name}@{e.qual}", kind="definedness",
                 detail=f"local '{name}' read before assignment in {e.qual}")
          raise PathEnd()
        raise UnboundLocalError(name)
      if name in e.vars and not (first and name in e.globals):
        v = e.vars[name]
        if isinstance(v, _Unhavoced):
          raise Undecided(f"loop contract of {v.tag} does not havoc the loop-carried variable '{v.name}': the contract must be extended")
        return v
      first = False
      e = e.parent
    if name in interp.builtins:
      return interp.builtins[name]
    if hasattr(builtins, name):
      return getattr(builtins, name)
    c = _ctx.CUR
    if c is not None:
      c.fail(f"defined:{name}@{self.qual}", kind="definedness",
             detail=f"name '{name}' is not defined")
      raise PathEnd()
    raise NameError(name)

  def store(self, name, value):
    if name in self.globals:
      self.module_env().vars[name] = value
      return
    if name in self.nonlocals:
      e = self.parent
      while e is not None:
        if e.kind == "function" and name in e.vars:
          e.vars[name] = value
          return
        e = e.parent
      raise EngineError("nonlocal target not found: " + name)
    self.vars[name] = value

  def delete(self, name):
    if name in self.vars:
      del self.vars[name]


def _assigned_names(fn_node):
  """Names that are local to a function body (CPython's rule)."""
  out = set()
  glob = set()
  nonl = set()

  class V(ast.NodeVisitor):

    def visit_FunctionDef(self, n):
      out.add(n.name)

    visit_AsyncFunctionDef = visit_FunctionDef

    def visit_ClassDef(self, n):
      out.add(n.name)

    def visit_Lambda(self, n):
      pass

    def visit_ListComp(self, n):
      # only the first iterable is evaluated in the enclosing scope
      self.visit(n.generators[0].iter)

    visit_SetComp = visit_ListComp
    visit_GeneratorExp = visit_ListComp
    visit_DictComp = visit_ListComp

    def visit_Name(self, n):
      if isinstance(n.ctx, (ast.Store, ast.Del)):
        out.add(n.id)

    def visit_Global(self, n):
      glob.update(n.names)

    def visit_Nonlocal(self, n):
      nonl.update(n.names)

    def visit_Import(self, n):
      for a in n.names:
        out.add((a.asname or a.name).split(".")[0])

    def visit_ImportFrom(self, n):
      for a in n.names:
        out.add(a.asname or a.name)

    def visit_ExceptHandler(self, n):
      if n.name:
        out.add(n.name)
      self.generic_visit(n)

  body = fn_node.body if isinstance(fn_node.body, list) else [fn_node.body]
  v = V()
  for s in body:
    v.visit(s)
  return out - glob - nonl, glob, nonl


def _number_nodes(fn_node):
  """Assign per-function ordinals to asserts, loops and calls (source order)."""
  counters = {"assert": 0, "loop": 0, "raise": 0, "stmt": 0}

  def walk(node):
    for child in ast.iter_child_nodes(node):
      if isinstance(child, (ast.FunctionDef, ast.Lambda, ast.ClassDef,
                            ast.AsyncFunctionDef)):
        continue
      if isinstance(child, ast.stmt):
        child._ord_stmt = counters["stmt"]
        counters["stmt"] += 1
      if isinstance(child, ast.Assert):
        child._ord = counters["assert"]
        counters["assert"] += 1
      elif isinstance(child, (ast.For, ast.While)):
        child._ord = counters["loop"]
        counters["loop"] += 1
      elif isinstance(child, ast.Raise):
        child._ord = counters["raise"]
        counters["raise"] += 1
      walk(child)

  walk(fn_node)


class IFunction:
  """An interpreted function; a real Python callable."""

  def __init__(self, interp, node, env, qualname, module):
    self.interp = interp
    self.node = node
    self.env = env
    self.__qualname__ = qualname
    self.__name__ = getattr(node, "name", "<lambda>")
    self.__module__ = module
    self.module = module
    self.defaults = []
    self.kw_defaults = {}
    self.is_generator = False
    if not hasattr(node, "_numbered"):
      _number_nodes(node)
      node._numbered = True
      node._locals = _assigned_names(node)
      node._is_gen = any(
          isinstance(n, (ast.Yield, ast.YieldFrom))
          for n in _walk_no_nested(node))
    self.is_generator = node._is_gen

  def __repr__(self):
    return f"<IFunction {self.module}:{self.__qualname__}>"

  def __get__(self, obj, objtype=None):
    if obj is None:
      return self
    return types.MethodType(self, obj)

  def __call__(self, *args, **kwargs):
    return self.interp.call_function(self, args, kwargs)


def _walk_no_nested(fn_node):
  stack = list(ast.iter_child_nodes(fn_node))
  while stack:
    n = stack.pop()
    yield n
    if isinstance(n, (ast.FunctionDef, ast.Lambda, ast.ClassDef)):
      continue
    stack.extend(ast.iter_child_nodes(n))


class IModule:
  """Module object whose attributes are the module environment's variables."""

  def __init__(self, env):
    object.__setattr__(self, "__env__", env)

  def __getattr__(self, name):
    try:
      return self.__env__.vars[name]
    except KeyError:
      raise AttributeError(name) from None

  def __setattr__(self, name, v):
    self.__env__.vars[name] = v

  def __repr__(self):
    return f"<IModule {self.__env__.qual}>"


class _Unhavoced:
  """Placed by the loop rules in a variable that the loop body assigns but the loop contract's havoc left untouched:
  reading it (before the body re-assigns it) would silently use its PRE-LOOP value for an arbitrary iteration."""

  def __init__(self, name, tag):
    self.name, self.tag = name, tag


def _stored_names(stmts):
  out = set()

  class V(ast.NodeVisitor):

    def visit_Name(self, n):
      if isinstance(n.ctx, (ast.Store, ast.Del)):
        out.add(n.id)

    def visit_FunctionDef(self, n):
      out.add(n.name)

    visit_AsyncFunctionDef = visit_FunctionDef

    def visit_Lambda(self, n):
      pass

    def visit_ClassDef(self, n):
      out.add(n.name)

    def visit_ListComp(self, n):
      pass

    visit_SetComp = visit_DictComp = visit_GeneratorExp = visit_ListComp

  for st in stmts:
    V().visit(st)
  return out


class LoopContract:
  """Invariant for a loop with a symbolic trip count.

  havoc(env_vars: dict, k) -> None   replaces loop-carried variables by fresh values
  inv(env_vars: dict, k) -> SBool    k = number of completed iterations (for) / None (while)
  """

  def __init__(self, inv, havoc, name=""):
    self.inv = inv
    self.havoc = havoc
    self.name = name


class Interp:

  def __init__(self, libs, source_overrides=None):
    self.libs = libs  # dotted module name -> object
    self.modules = {}
    self.builtins = {}
    self.source_overrides = source_overrides or {}
    self.sources = {}  # module -> text
    self.fn_nodes = {}  # (module, qualname) -> node
    self.used_functions = {}  # (module, qualname) -> sha256
    self.loop_contracts = {}  # (qualname, ordinal) -> LoopContract
    self.call_contracts = {}  # qualname -> callable(interp, fn, args, kwargs)
    self.call_depth = 0
    self.noop_names = {"print"}
    self.explanatory_asserts = set()

  # ------------------------------------------------------------- modules
  def module_path(self, modname):
    rel = modname.replace(".", "/")
    p = os.path.join(REPO, rel + ".py")
    if os.path.exists(p):
      return p
    p2 = os.path.join(REPO, rel, "__init__.py")
    if os.path.exists(p2):
      return p2
    return None

  def load_module(self, modname):
    if modname in self.modules:
      return self.modules[modname]
    if modname in self.libs:
      return self.libs[modname]
    path = self.module_path(modname)
    if path is None and os.path.isdir(os.path.join(REPO, modname.replace(".", "/"))):
      # namespace package (no __init__.py)
      mod = IModule(Env(None, "module", qual=modname))
      self.modules[modname] = mod
      return mod
    if path is None:
      raise Unsupported(f"import of unknown module {modname}")
    if modname in self.source_overrides:
      text = self.source_overrides[modname]
    else:
      with open(path) as fh:
        text = fh.read()
    self.sources[modname] = text
    tree = ast.parse(text, filename=path)
    env = Env(None, "module", qual=modname)
    env.vars["__name__"] = modname
    env.vars["__file__"] = path
    mod = IModule(env)
    self.modules[modname] = mod
    self._index_functions(modname, tree, text)
    frame = Frame(self, env, modname, modname)
    for st in tree.body:
      if (isinstance(st, ast.If) and isinstance(st.test, ast.Compare) and
          isinstance(st.test.left, ast.Name) and st.test.left.id == "__name__"):
        continue
      frame.exec_stmt(st)
    return mod

  def _index_functions(self, modname, tree, text):
    lines = text.splitlines(keepends=True)

    def visit(node, prefix):
      for ch in ast.iter_child_nodes(node):
        if isinstance(ch, (ast.FunctionDef, ast.AsyncFunctionDef)):
          q = prefix + ch.name
          self.fn_nodes[(modname, q)] = ch
          src = "".join(lines[ch.lineno - 1:ch.end_lineno])
          ch._sha = hashlib.sha256(src.encode()).hexdigest()
          ch._qual = q
          ch._module = modname
          visit(ch, q + ".<locals>.")
        elif isinstance(ch, ast.ClassDef):
          visit(ch, prefix + ch.name + ".")
        else:
          visit(ch, prefix)

    visit(tree, "")

  def find_stmt(self, modname, qual, pred, which=0):
    """Mechanical extraction: the n-th statement of a function satisfying pred (an ast test)."""
    n = self.fn_nodes.get((modname, qual))
    if n is None:
      raise Undecided(f"function {modname}:{qual} not found (renamed or removed)")
    self.used_functions[(modname, qual)] = n._sha
    hits = [x for x in _walk_no_nested(n) if pred(x)]
    hits.sort(key=lambda x: (x.lineno, x.col_offset))
    if len(hits) <= which:
      raise Undecided(f"statement #{which} not found in {modname}:{qual}")
    return hits[which]

  def eval_expr_in(self, modname, node, variables, qual="<extracted>"):
    """Evaluates a real expression node with the given local variables over the module globals."""
    mod = self.load_module(modname)
    env = Env(mod.__env__, "function", qual=qual, locals_=set(variables))
    env.vars.update(variables)
    return Frame(self, env, modname, qual).eval(node)

  def make_nested(self, modname, qual, variables):
    """A nested function node evaluated with its free variables bound to the given values
    (DESIGN A.1: sound over-approximation of every environment the constructor can build)."""
    mod = self.load_module(modname)
    n = self.fn_nodes.get((modname, qual))
    if n is None:
      raise Undecided(f"function {modname}:{qual} not found (renamed or removed)")
    self.used_functions[(modname, qual)] = n._sha
    env = Env(mod.__env__, "function", qual=qual.rsplit(".<locals>.", 1)[0], locals_=set(variables))
    env.vars.update(variables)
    fn = IFunction(self, n, env, qual, modname)
    fr = Frame(self, env, modname, env.qual)
    fn.defaults = [fr.eval(d) for d in n.args.defaults]
    fn.kw_defaults = {p.arg: fr.eval(d) for p, d in zip(n.args.kwonlyargs, n.args.kw_defaults) if d is not None}
    return fn

  def exec_block_in(self, modname, qual, first_pred, last_pred, variables):
    """Mechanical extraction of a contiguous statement block of a function body (from the first
    statement satisfying first_pred through the first later one satisfying last_pred); executes it over the
    given variables and returns the resulting variables."""
    mod = self.load_module(modname)
    n = self.fn_nodes.get((modname, qual))
    if n is None:
      raise Undecided(f"function {modname}:{qual} not found (renamed or removed)")
    self.used_functions[(modname, qual)] = n._sha
    if not hasattr(n, "_numbered"):
      _number_nodes(n)
      n._numbered = True
    body = n.body
    i0 = next((i for i, st in enumerate(body) if first_pred(st)), None)
    if i0 is None:
      raise Undecided(f"block start not found in {modname}:{qual}")
    i1 = next((i for i in range(i0, len(body)) if last_pred(body[i])), None)
    if i1 is None:
      raise Undecided(f"block end not found in {modname}:{qual}")
    env = Env(mod.__env__, "function", qual=qual, locals_=set(variables))
    env.vars.update(variables)
    fr = Frame(self, env, modname, qual)
    fr.exec_block(body[i0:i1 + 1])
    return env.vars

  def function_sha(self, modname, qual):
    n = self.fn_nodes.get((modname, qual))
    if n is None:
      raise Undecided(f"function {modname}:{qual} not found (renamed or removed)")
    return n._sha

  # ------------------------------------------------------------- calls
  def call_function(self, fn, args, kwargs):
    node = fn.node
    q = fn.__qualname__
    sha = getattr(node, "_sha", None)
    if sha:
      self.used_functions[(fn.module, q)] = sha
    cc = self.call_contracts.get(q)
    if cc is not None:
      r = cc(self, fn, args, kwargs)
      if r is not NotImplemented:
        return r
    locals_, glob, nonl = node._locals
    a = node.args
    params = [p.arg for p in a.posonlyargs + a.args]
    env = Env(fn.env, "function", qual=q,
              locals_=set(locals_) | set(params) |
              {p.arg for p in a.kwonlyargs} |
              ({a.vararg.arg} if a.vararg else set()) |
              ({a.kwarg.arg} if a.kwarg else set()))
    env.globals = glob
    env.nonlocals = nonl
    self._bind(fn, env, args, kwargs)
    frame = Frame(self, env, fn.module, q)
    self.call_depth += 1
    if self.call_depth > 200:
      raise EngineError("interpreter recursion too deep")
    try:
      if isinstance(node, ast.Lambda):
        return frame.eval(node.body)
      if fn.is_generator:
        return frame.run_generator(node.body)
      try:
        frame.exec_block(node.body)
      except _Return as r:
        return r.value
      return None
    finally:
      self.call_depth -= 1

  def _bind(self, fn, env, args, kwargs):
    a = fn.node.args
    params = [p.arg for p in a.posonlyargs + a.args]
    nparams = len(params)
    args = tuple(args)
    kwargs = dict(kwargs)
    for i, name in enumerate(params):
      if i < len(args):
        if name in kwargs:
          raise TypeError(f"{fn.__qualname__}() got multiple values for argument '{name}'")
        env.vars[name] = args[i]
      elif name in kwargs:
        env.vars[name] = kwargs.pop(name)
      else:
        di = i - (nparams - len(fn.defaults))
        if di < 0:
          raise TypeError(
              f"{fn.__qualname__}() missing required positional argument: '{name}'")
        env.vars[name] = fn.defaults[di]
    if len(args) > nparams:
      if a.vararg:
        env.vars[a.vararg.arg] = tuple(args[nparams:])
      else:
        raise TypeError(
            f"{fn.__qualname__}() takes {nparams} positional arguments but {len(args)} were given")
    elif a.vararg:
      env.vars[a.vararg.arg] = ()
    for p in a.kwonlyargs:
      if p.arg in kwargs:
        env.vars[p.arg] = kwargs.pop(p.arg)
      elif p.arg in fn.kw_defaults:
        env.vars[p.arg] = fn.kw_defaults[p.arg]
      else:
        raise TypeError(f"{fn.__qualname__}() missing keyword-only argument '{p.arg}'")
    if a.kwarg:
      env.vars[a.kwarg.arg] = kwargs
    elif kwargs:
      raise TypeError(
          f"{fn.__qualname__}() got an unexpected keyword argument '{next(iter(kwargs))}'")


_BINOPS = {
    ast.Add: lambda a, b: a + b,
    ast.Sub: lambda a, b: a - b,
    ast.Mult: lambda a, b: a * b,
    ast.Div: lambda a, b: a / b,
    ast.FloorDiv: lambda a, b: a // b,
    ast.Mod: lambda a, b: a % b,
    ast.Pow: lambda a, b: a**b,
    ast.BitAnd: lambda a, b: a & b,
    ast.BitOr: lambda a, b: a | b,
    ast.BitXor: lambda a, b: a ^ b,
    ast.LShift: lambda a, b: a << b,
    ast.RShift: lambda a, b: a >> b,
    ast.MatMult: lambda a, b: a @ b,
}

_IBINOPS = {
    ast.Add: "__iadd__",
    ast.Sub: "__isub__",
    ast.Mult: "__imul__",
    ast.Div: "__itruediv__",
    ast.FloorDiv: "__ifloordiv__",
    ast.Mod: "__imod__",
    ast.Pow: "__ipow__",
    ast.BitAnd: "__iand__",
    ast.BitOr: "__ior__",
}

_CMPOPS = {
    ast.Eq: lambda a, b: a == b,
    ast.NotEq: lambda a, b: a != b,
    ast.Lt: lambda a, b: a < b,
    ast.LtE: lambda a, b: a <= b,
    ast.Gt: lambda a, b: a > b,
    ast.GtE: lambda a, b: a >= b,
    ast.Is: lambda a, b: a is b,
    ast.IsNot: lambda a, b: a is not b,
}


def truthy(v):
  """Python truthiness; forks on symbolic values (their __bool__)."""
  return bool(v)


class Frame:

  def __init__(self, interp, env, module, qual):
    self.interp = interp
    self.env = env
    self.module = module
    self.qual = qual
    self.yields = None

  # ------------------------------------------------------------- statements
  def exec_block(self, stmts):
    for s in stmts:
      self.exec_stmt(s)

  def exec_stmt(self, node):
    c = _ctx.CUR
    if c is not None:
      c.site = f"{self.qual}#s{getattr(node, '_ord_stmt', 0)}"
    m = getattr(self, "s_" + type(node).__name__, None)
    if m is None:
      raise Unsupported(f"statement {type(node).__name__} in {self.qual}")
    return m(node)

  def s_Expr(self, node):
    if isinstance(node.value, ast.Constant):
      return  # docstring
    self.eval(node.value)

  def s_Pass(self, node):
    pass

  def s_Return(self, node):
    raise _Return(self.eval(node.value) if node.value is not None else None)

  def s_Break(self, node):
    raise _Break()

  def s_Continue(self, node):
    raise _Continue()

  def s_Global(self, node):
    self.env.globals.update(node.names)

  def s_Nonlocal(self, node):
    self.env.nonlocals.update(node.names)

  def s_Delete(self, node):
    for t in node.targets:
      if isinstance(t, ast.Name):
        self.env.delete(t.id)
      elif isinstance(t, ast.Subscript):
        del self.eval(t.value)[self.eval_slice(t.slice)]
      elif isinstance(t, ast.Tuple):
        for e in t.elts:
          self.env.delete(e.id)
      else:
        raise Unsupported("del target")

  def s_Import(self, node):
    for a in node.names:
      mod = self.interp.load_module(a.name)
      if a.asname:
        self.env.store(a.asname, mod)
      else:
        top = a.name.split(".")[0]
        self.env.store(top, self.interp.load_module(top))

  def s_ImportFrom(self, node):
    base = node.module
    mod = self.interp.load_module(base)
    for a in node.names:
      name = a.name
      if hasattr(mod, name):
        v = getattr(mod, name)
      else:
        v = self.interp.load_module(base + "." + name)
      self.env.store(a.asname or name, v)

  def s_FunctionDef(self, node):
    fn = self.make_function(node)
    v = fn
    for d in reversed(node.decorator_list):
      v = self.apply_decorator(d, v)
    self.env.store(node.name, v)

  def make_function(self, node):
    if self.env.kind == "module":
      q = node.name if not isinstance(node, ast.Lambda) else "<lambda>"
    elif self.env.kind == "class":
      q = self.qual + "." + node.name
    else:
      nm = node.name if not isinstance(node, ast.Lambda) else "<lambda>"
      q = self.qual + ".<locals>." + nm
    fn = IFunction(self.interp, node, self.env if self.env.kind != "class" else self.env.parent, q,
                   self.module)
    a = node.args
    fn.defaults = [self.eval(d) for d in a.defaults]
    fn.kw_defaults = {
        p.arg: self.eval(d) for p, d in zip(a.kwonlyargs, a.kw_defaults) if d is not None
    }
    return fn

  def apply_decorator(self, dnode, v):
    d = self.eval(dnode)
    if d in (classmethod, staticmethod, property):
      return d(v)
    return d(v)

  def s_ClassDef(self, node):
    bases = tuple(self.eval(b) for b in node.bases)
    kw = {k.arg: self.eval(k.value) for k in node.keywords}
    qual = node.name if self.env.kind == "module" else self.qual + "." + node.name
    cenv = Env(self.env, "class", qual=qual)
    cframe = Frame(self.interp, cenv, self.module, qual)
    annotations = {}
    cenv.vars["__module__"] = self.module
    cenv.vars["__qualname__"] = qual
    for st in node.body:
      if isinstance(st, ast.AnnAssign):
        if isinstance(st.target, ast.Name):
          annotations[st.target.id] = typing.Any
          if st.value is not None:
            cenv.vars[st.target.id] = cframe.eval(st.value)
        continue
      cframe.exec_stmt(st)
    ns = dict(cenv.vars)
    if annotations:
      ns["__annotations__"] = annotations

    def body(target):
      for k, v in ns.items():
        target[k] = v

    bases = types.resolve_bases(bases)
    cls = types.new_class(node.name, bases, kw, body)
    for d in reversed(node.decorator_list):
      cls = self.apply_decorator(d, cls)
    self.env.store(node.name, cls)

  def s_Assign(self, node):
    v = self.eval(node.value)
    for t in node.targets:
      self.assign(t, v)

  def s_AnnAssign(self, node):
    if node.value is not None:
      self.assign(node.target, self.eval(node.value))

  def s_AugAssign(self, node):
    t = node.target
    op = type(node.op)
    if isinstance(t, ast.Name):
      cur = self.env.lookup(t.id, self.interp)
      rhs = self.eval(node.value)
      self.env.store(t.id, self.augop(op, cur, rhs))
    elif isinstance(t, ast.Subscript):
      obj = self.eval(t.value)
      idx = self.eval_slice(t.slice)
      cur = self.getitem(obj, idx)
      rhs = self.eval(node.value)
      self.setitem(obj, idx, self.augop(op, cur, rhs))
    elif isinstance(t, ast.Attribute):
      obj = self.eval(t.value)
      cur = getattr(obj, t.attr)
      rhs = self.eval(node.value)
      setattr(obj, t.attr, self.augop(op, cur, rhs))
    else:
      raise Unsupported("augassign target")

  def augop(self, op, cur, rhs):
    name = _IBINOPS.get(op)
    if getattr(cur, "tags", None) and cur.tags.get("numpy_owned"):
      # `x op= y` on a NumPy array is an IN-PLACE write (ndarray.__iop__); state leaves restored by
      # flax.serialization.from_bytes are NumPy arrays owned by the caller.
      c = _ctx.CUR
      c.fail(f"frame:in-place-write-into-caller-owned-state-leaf@{self.qual}", kind="frame",
             detail=f"augmented assignment on {cur.tags.get('numpy_owned')} (a NumPy state leaf would be mutated / is read-only)")
      raise PathEnd()
    if name and isinstance(cur, (list, dict, set)) and hasattr(cur, name):
      return getattr(cur, name)(rhs)
    if name and hasattr(cur, "_pyvc_inplace"):
      return getattr(cur, name)(rhs)
    return _BINOPS[op](cur, rhs)

  def assign(self, target, v):
    if isinstance(target, ast.Name):
      self.env.store(target.id, v)
    elif isinstance(target, (ast.Tuple, ast.List)):
      elts = target.elts
      star = [i for i, e in enumerate(elts) if isinstance(e, ast.Starred)]
      vals = self.unpack(v, len(elts) if not star else None)
      if star:
        i = star[0]
        n_after = len(elts) - i - 1
        head = vals[:i]
        mid = vals[i:len(vals) - n_after]
        tail = vals[len(vals) - n_after:]
        for e, x in zip(elts[:i], head):
          self.assign(e, x)
        self.assign(elts[i].value, list(mid))
        for e, x in zip(elts[i + 1:], tail):
          self.assign(e, x)
      else:
        if len(vals) != len(elts):
          c = _ctx.CUR
          if c is not None:
            c.fail(f"unpack-arity@{self.qual}", kind="definedness",
                   detail=f"expected {len(elts)} values, got {len(vals)}")
            raise PathEnd()
          raise ValueError("unpack arity")
        for e, x in zip(elts, vals):
          self.assign(e, x)
    elif isinstance(target, ast.Subscript):
      obj = self.eval(target.value)
      self.setitem(obj, self.eval_slice(target.slice), v)
    elif isinstance(target, ast.Attribute):
      setattr(self.eval(target.value), target.attr, v)
    elif isinstance(target, ast.Starred):
      self.assign(target.value, v)
    else:
      raise Unsupported("assign target " + type(target).__name__)

  def unpack(self, v, n):
    if hasattr(v, "_pyvc_unpack"):
      return v._pyvc_unpack(n)
    return list(v)

  def s_If(self, node):
    if truthy(self.eval(node.test)):
      self.exec_block(node.body)
    else:
      self.exec_block(node.orelse)

  def s_Assert(self, node):
    c = _ctx.CUR
    v = self.eval(node.test)
    name = f"assert#{node._ord}@{self.qual}"
    if name in self.interp.explanatory_asserts and node.msg is not None:
      # an assert WITH a message that the contract lists as an explicit explanatory rejection: python semantics
      if not truthy(v):
        raise AssertionError(self.eval(node.msg))
      return
    if c is None:
      assert v
      return
    if isinstance(v, sym.Sym):
      z = v.z if isinstance(v, sym.SBool) else (v != 0).z
      c.oblige(name, z, kind="assert", detail=ast.unparse(node.test)[:200])
    elif hasattr(v, "_pyvc_truth"):
      c.oblige(name, v._pyvc_truth().z, kind="assert",
               detail=ast.unparse(node.test)[:200])
    else:
      if v:
        c.oblige(name, True, kind="assert", detail=ast.unparse(node.test)[:200])
      else:
        c.fail(name, kind="assert", detail=ast.unparse(node.test)[:200])
        raise PathEnd()

  def s_Raise(self, node):
    if node.exc is None:
      raise Unsupported("bare raise")
    exc = self.eval(node.exc)
    if isinstance(exc, type):
      exc = exc()
    exc._pyvc_site = f"raise#{node._ord}@{self.qual}"
    raise exc

  def s_With(self, node):
    # context managers are transparent (jax.named_scope); body executed.
    for item in node.items:
      v = self.eval(item.context_expr)
      if item.optional_vars is not None:
        self.assign(item.optional_vars, v)
    self.exec_block(node.body)

  def s_Try(self, node):
    try:
      self.exec_block(node.body)
    except (_Return, _Break, _Continue, PathEnd, EngineError, Undecided):
      raise
    except Exception as e:  # pylint: disable=broad-except
      for h in node.handlers:
        if h.type is None or isinstance(e, self.eval(h.type)):
          if h.name:
            self.env.store(h.name, e)
          self.exec_block(h.body)
          break
      else:
        raise
    else:
      self.exec_block(node.orelse)
    finally:
      self.exec_block(node.finalbody)

  # ------------------------------------------------------------- loops
  def s_While(self, node):
    lc = self.interp.loop_contracts.get((self.qual, node._ord))
    if lc is None:
      n = 0
      while truthy(self.eval(node.test)):
        n += 1
        if n > 4096:
          raise EngineError(f"while loop in {self.qual} did not terminate concretely; needs an invariant")
        try:
          self.exec_block(node.body)
        except _Break:
          break
        except _Continue:
          continue
      else:
        self.exec_block(node.orelse)
      return
    c = _ctx.CUR
    tag = f"{self.qual}.loop{node._ord}"
    c.oblige(f"{tag}.inv-entry", self._inv(lc, None), kind="invariant")
    if c.choose(tag):
      self._havoc(lc, None, node, tag)
      c.assume(self._inv(lc, None))
      if not truthy(self.eval(node.test)):
        raise PathEnd()
      try:
        self.exec_block(node.body)
      except _Continue:
        pass
      except _Break:
        return
      c.oblige(f"{tag}.inv-preserved", self._inv(lc, None), kind="invariant")
      raise PathEnd()
    self._havoc(lc, None, node, tag)
    c.assume(self._inv(lc, None))
    if truthy(self.eval(node.test)):
      raise PathEnd()
    self.exec_block(node.orelse)

  def _havoc(self, lc, k, node, tag):
    names = _stored_names(node.body)
    if isinstance(node, ast.For):
      names |= _stored_names([ast.Expr(value=node.target)]) if False else {n.id for n in ast.walk(node.target) if isinstance(n, ast.Name)}
    before = {nm: self.env.vars[nm] for nm in names if nm in self.env.vars}
    lc.havoc(self.env.vars, k)
    for nm, old in before.items():
      if nm in self.env.vars and self.env.vars[nm] is old and not isinstance(old, (IFunction,)) and not callable(old):
        self.env.vars[nm] = _Unhavoced(nm, tag)

  def _inv(self, lc, k):
    try:
      return lc.inv(self.env.vars, k)
    except KeyError as e:
      raise Undecided(f"loop invariant {lc.name} refers to missing local {e}") from e

  def s_For(self, node):
    it = self.eval(node.iter)
    if hasattr(it, "_pyvc_symlen"):
      return self.for_symbolic(node, it)
    for x in it:
      self.assign(node.target, x)
      try:
        self.exec_block(node.body)
      except _Break:
        break
      except _Continue:
        continue
    else:
      self.exec_block(node.orelse)

  def for_symbolic(self, node, seq):
    lc = self.interp.loop_contracts.get((self.qual, node._ord))
    if lc is None:
      raise Unsupported(
          f"loop {node._ord} of {self.qual} has a symbolic trip count and no invariant")
    c = _ctx.CUR
    tag = f"{self.qual}.loop{node._ord}"
    n = seq._pyvc_symlen()
    c.oblige(f"{tag}.inv-entry", self._inv(lc, 0), kind="invariant")
    if c.choose(tag):
      k = sym.SInt(c.fresh_int("k"))
      c.assume(sym.sand(k >= 0, k < n))
      self._havoc(lc, k, node, tag)
      c.assume(self._inv(lc, k))
      self.assign(node.target, seq._pyvc_at(k))
      try:
        self.exec_block(node.body)
      except _Continue:
        pass
      except _Break:
        return
      c.oblige(f"{tag}.inv-preserved", self._inv(lc, k + 1), kind="invariant")
      raise PathEnd()
    self._havoc(lc, n, node, tag)
    c.assume(self._inv(lc, n))
    self.exec_block(node.orelse)

  # ------------------------------------------------------------- generators
  def run_generator(self, body):
    self.yields = []
    pending = None
    try:
      self.exec_block(body)
    except _Return:
      pass
    except (PathEnd, EngineError, Undecided):
      raise
    except Exception as e:  # pylint: disable=broad-except
      pending = e
    ys = self.yields

    def gen():
      for y in ys:
        yield y
      if pending is not None:
        raise pending

    return gen()

  # ------------------------------------------------------------- expressions
  def eval(self, node):
    m = getattr(self, "e_" + type(node).__name__, None)
    if m is None:
      raise Unsupported(f"expression {type(node).__name__} in {self.qual}")
    return m(node)

  def e_Constant(self, node):
    return node.value

  def e_Name(self, node):
    return self.env.lookup(node.id, self.interp)

  def e_Yield(self, node):
    self.yields.append(self.eval(node.value) if node.value else None)
    return None

  def e_NamedExpr(self, node):
    v = self.eval(node.value)
    self.assign(node.target, v)
    return v

  def e_Tuple(self, node):
    return tuple(self._elts(node.elts))

  def e_List(self, node):
    return list(self._elts(node.elts))

  def e_Set(self, node):
    return set(self._elts(node.elts))

  def _elts(self, elts):
    out = []
    for e in elts:
      if isinstance(e, ast.Starred):
        out.extend(self.iterate(self.eval(e.value)))
      else:
        out.append(self.eval(e))
    return out

  def iterate(self, v):
    if hasattr(v, "_pyvc_symlen"):
      raise Unsupported("iteration over symbolic-length sequence outside a for loop")
    return list(v)

  def e_Dict(self, node):
    d = {}
    for k, v in zip(node.keys, node.values):
      if k is None:
        d.update(self.eval(v))
      else:
        d[self.eval(k)] = self.eval(v)
    return d

  def e_JoinedStr(self, node):
    parts = []
    for v in node.values:
      if isinstance(v, ast.Constant):
        parts.append(str(v.value))
      else:
        parts.append(self.e_FormattedValue(v))
    return "".join(parts)

  def e_FormattedValue(self, node):
    try:
      v = self.eval(node.value)
      if node.conversion == 114:
        return repr(v)
      return str(v) if not isinstance(v, sym.Sym) else "<sym>"
    except (PathEnd, EngineError, Undecided):
      raise
    except Exception:  # pylint: disable=broad-except
      return "<?>"

  def e_Lambda(self, node):
    if not hasattr(node, "args"):
      raise Unsupported("lambda")
    return self.make_function(node)

  def e_IfExp(self, node):
    if truthy(self.eval(node.test)):
      return self.eval(node.body)
    return self.eval(node.orelse)

  def e_BoolOp(self, node):
    if isinstance(node.op, ast.And):
      v = True
      for e in node.values:
        v = self.eval(e)
        if not truthy(v):
          return v
      return v
    v = False
    for e in node.values:
      v = self.eval(e)
      if truthy(v):
        return v
    return v

  def e_UnaryOp(self, node):
    v = self.eval(node.operand)
    if isinstance(node.op, ast.Not):
      if isinstance(v, sym.SBool):
        return sym.SBool(__import__("z3").Not(v.z))
      return not truthy(v)
    if isinstance(node.op, ast.USub):
      return -v
    if isinstance(node.op, ast.UAdd):
      return +v
    if isinstance(node.op, ast.Invert):
      return ~v
    raise Unsupported("unary op")

  def e_BinOp(self, node):
    a = self.eval(node.left)
    b = self.eval(node.right)
    try:
      return _BINOPS[type(node.op)](a, b)
    except TypeError as e:
      c = _ctx.CUR
      if c is not None and "unsupported operand" in str(e):
        c.fail(f"type-error@{self.qual}#s{getattr(c, 'site', '').split('#s')[-1]}", kind="definedness",
               detail=f"{ast.unparse(node)[:120]}: {e}")
        raise PathEnd() from e
      raise

  def e_Compare(self, node):
    left = self.eval(node.left)
    result = True
    for op, rn in zip(node.ops, node.comparators):
      right = self.eval(rn)
      if isinstance(op, ast.In):
        r = self.contains(right, left)
      elif isinstance(op, ast.NotIn):
        r = self.contains(right, left)
        r = sym.snot(r) if isinstance(r, sym.Sym) else (not r)
      else:
        r = _CMPOPS[type(op)](left, right)
      if len(node.ops) == 1:
        return r
      if isinstance(r, sym.SBool) or isinstance(result, sym.SBool):
        result = sym.sand(result, r) if not (isinstance(result, bool) and result) else r
      else:
        if not truthy(r):
          return r
        result = r
      left = right
    return result

  def contains(self, container, item):
    if hasattr(container, "_pyvc_contains"):
      return container._pyvc_contains(item)
    if isinstance(container, dict) and (isinstance(item, sym.Sym) or any(isinstance(k, sym.Sym) for k in container)):
      return self._dict_find(container, item) is not _UNBOUND
    if isinstance(item, sym.Sym) and isinstance(container, (list, tuple)):
      return sym.sor(*[item == x for x in container])
    return item in container

  def e_Attribute(self, node):
    v = self.eval(node.value)
    try:
      return getattr(v, node.attr)
    except AttributeError as e:
      c = _ctx.CUR
      if c is not None and not isinstance(v, (types.ModuleType, IModule, types.SimpleNamespace)):
        c.fail(f"attribute:{node.attr}@{self.qual}", kind="definedness",
               detail=f"{type(v).__name__} has no attribute {node.attr}")
        raise PathEnd() from e
      raise Unsupported(f"attribute {node.attr} on {type(v).__name__} ({e})") from e

  def e_Subscript(self, node):
    obj = self.eval(node.value)
    idx = self.eval_slice(node.slice)
    return self.getitem(obj, idx)

  def eval_slice(self, s):
    if isinstance(s, ast.Slice):
      return slice(
          self.eval(s.lower) if s.lower is not None else None,
          self.eval(s.upper) if s.upper is not None else None,
          self.eval(s.step) if s.step is not None else None)
    if isinstance(s, ast.Tuple):
      return tuple(self.eval_slice(e) for e in s.elts)
    return self.eval(s)

  def getitem(self, obj, idx):
    if isinstance(obj, (list, tuple, str)):
      from . import seq
      return seq.list_getitem(obj, idx, self.qual)
    if isinstance(obj, dict) and (isinstance(idx, sym.Sym) or any(isinstance(k, sym.Sym) for k in obj)):
      k = self._dict_find(obj, idx)
      if k is _UNBOUND:
        c = _ctx.CUR
        c.fail(f"dict-key@{self.qual}", kind="definedness", detail="KeyError")
        raise PathEnd()
      return dict.__getitem__(obj, k)
    try:
      return obj[idx]
    except (IndexError, KeyError) as e:
      c = _ctx.CUR
      if c is not None:
        c.fail(f"index@{self.qual}", kind="definedness", detail=repr(e)[:100])
        raise PathEnd() from e
      raise

  def _dict_find(self, obj, idx):
    """Semantic key lookup in a concrete dict with symbolic keys (forks on equality)."""
    for k in obj:
      if k is idx:
        return k
    for k in obj:
      if isinstance(k, sym.Sym) or isinstance(idx, sym.Sym):
        try:
          eq = (k == idx)
        except Exception:  # pylint: disable=broad-except
          continue
        if eq is NotImplemented or eq is False:
          continue
        if truthy(eq):
          return k
      elif k == idx:
        return k
    return _UNBOUND

  def setitem(self, obj, idx, v):
    if isinstance(obj, dict) and (isinstance(idx, sym.Sym) or any(isinstance(k, sym.Sym) for k in obj)):
      k = self._dict_find(obj, idx)
      dict.__setitem__(obj, idx if k is _UNBOUND else k, v)
      return
    if isinstance(obj, list) and isinstance(idx, sym.Sym):
      ci = sym.concrete_int(idx)
      if ci is None:
        raise Unsupported("symbolic index store into concrete list")
      idx = ci
    obj[idx] = v

  def e_Slice(self, node):
    return self.eval_slice(node)

  def e_Starred(self, node):
    raise Unsupported("starred outside call/collection")

  def e_Call(self, node):
    fn = self.eval(node.func)
    args = []
    for a in node.args:
      if isinstance(a, ast.Starred):
        args.extend(self.iterate(self.eval(a.value)))
      else:
        args.append(self.eval(a))
    kwargs = {}
    for k in node.keywords:
      if k.arg is None:
        kwargs.update(self.eval(k.value))
      else:
        kwargs[k.arg] = self.eval(k.value)
    return self.call(fn, args, kwargs, node)

  def call(self, fn, args, kwargs, node=None):
    try:
      return fn(*args, **kwargs)
    except (_Return, _Break, _Continue, PathEnd, EngineError, Undecided):
      raise
    except TypeError as e:
      # arity / keyword errors in calls between repository functions are
      # internal errors of the code under verification
      if getattr(e, "_pyvc_site", None) is None and "argument" in str(e) and isinstance(fn, IFunction):
        c = _ctx.CUR
        if c is not None:
          c.fail(f"call-arity:{fn.__qualname__}@{self.qual}", kind="definedness",
                 detail=str(e)[:200])
          raise PathEnd() from e
      raise

  # ------------------------------------------------------------- comprehensions
  def e_ListComp(self, node):
    r = self.comprehension(node, lambda fr: fr.eval(node.elt))
    return r

  def e_GeneratorExp(self, node):
    r = self.comprehension(node, lambda fr: fr.eval(node.elt))
    if hasattr(r, "_pyvc_symlen"):
      return r
    return iter(r)

  def e_SetComp(self, node):
    return set(self.comprehension(node, lambda fr: fr.eval(node.elt)))

  def e_DictComp(self, node):
    pairs = self.comprehension(node, lambda fr: (fr.eval(node.key), fr.eval(node.value)))
    if hasattr(pairs, "_pyvc_symlen"):
      # {key: value for key in seq} over a symbolic-length sequence whose k-th key is position k: a positional map
      from . import seq as _seq
      from . import sym as _sym
      c = _ctx.CUR
      n = pairs._pyvc_symlen()
      k1 = _sym.SInt(c.fresh_int("k_dc"))
      c.assume(_sym.sand(k1 >= 0, k1 < n))
      if not _sym.prove(pairs._pyvc_at(k1)[0] == k1):
        raise Unsupported("dict comprehension over a symbolic-length sequence whose keys are not the positions")
      vals = lambda j: pairs._pyvc_at(j)[1]
      k2 = _sym.SInt(c.fresh_int("k_dc2"))
      c.assume(_sym.sand(k2 >= 0, k2 < n))
      v1, v2 = vals(k1), vals(k2)
      if _sym.prove(v1 == v2):
        c.axioms_used.add("Sum of a constant map = size * value (Lean Spec.sum_replicate)")
        total = n * vals(0)
      else:
        total = _seq.SSeq(n, vals, "dictcomp_values")._pyvc_sum()
      return _seq.SMap(n, vals, total)
    return dict(pairs)

  def comprehension(self, node, elt):
    gens = node.generators
    first_iter = self.eval(gens[0].iter)
    names = set()
    for g in gens:
      for n in ast.walk(g.target):
        if isinstance(n, ast.Name):
          names.add(n.id)
    cenv = Env(self.env, "comp", qual=self.qual, locals_=names)
    cfr = Frame(self.interp, cenv, self.module, self.qual)
    if hasattr(first_iter, "_pyvc_symlen") and len(gens) == 1:
      from . import seq
      return seq.map_rule(cfr, gens[0], first_iter, elt)
    out = []

    def rec(i, it):
      g = gens[i]
      for x in (it if it is not None else cfr.iterate_any(cfr.eval(g.iter))):
        cfr.assign(g.target, x)
        if all(truthy(cfr.eval(c)) for c in g.ifs):
          if i + 1 < len(gens):
            rec(i + 1, None)
          else:
            out.append(elt(cfr))

    rec(0, self.iterate_any(first_iter))
    return out

  def iterate_any(self, v):
    if hasattr(v, "_pyvc_symlen"):
      raise Unsupported("nested comprehension over symbolic-length sequence")
    return v
