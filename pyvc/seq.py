"""Sequences of symbolic length (DESIGN A.4) and list helpers."""
from __future__ import annotations

import z3

from . import ctx as _ctx
from . import sym
from .ctx import PathEnd, Unsupported
from .sym import SBool, SInt, cur


def list_getitem(obj, idx, qual=""):
  """Indexing of a concrete list/tuple/str by possibly-symbolic index."""
  if isinstance(idx, slice):
    parts = []
    for b in (idx.start, idx.stop, idx.step):
      if isinstance(b, sym.Sym):
        cb = sym.concretize(b)
        if cb is None:
          raise Unsupported(f"symbolic slice bound on a concrete list in {qual}")
        b = cb
      elif b is not None and not isinstance(b, int):
        ci = sym.concrete_int(b)
        b = ci if ci is not None else b
      parts.append(b)
    return obj[slice(*parts)]
  if isinstance(idx, sym.SInt):
    ci = sym.concretize(idx)
    if ci is not None:
      idx = ci
    else:
      c = cur()
      n = len(obj)
      c.oblige(f"index-in-range@{qual}", sym.sand(idx >= -n, idx < n),
               kind="definedness")
      res = obj[n - 1] if n else None
      for j in range(n - 2, -1, -1):
        res = sym.ite(sym.sor(idx == j, idx == j - n), obj[j], res)
      return res
  try:
    return obj[idx]
  except IndexError as e:
    c = _ctx.CUR
    if c is not None:
      c.fail(f"index-in-range@{qual}", kind="definedness",
             detail=f"index {idx} out of range for length {len(obj)}")
      raise PathEnd() from e
    raise


class SSeq:
  """A sequence (list/tuple/1-D int array) whose length is symbolic.

  Elements are given by `at(k)` (k a z3-backed SInt or python int).
  """
  _pyvc_inplace = False

  def __init__(self, n, at, name="seq", prod_fn=None, sum_fn=None):
    self.n = n if isinstance(n, sym.Sym) else SInt(z3.IntVal(n))
    self._at = at
    self.name = name
    self._prod_fn = prod_fn
    self._sum_fn = sum_fn

  @staticmethod
  def fresh(name, elem="int", lo=None):
    c = cur()
    nm = c.fresh_name(name)
    n = SInt(z3.Int(nm + ".len"))
    c.assume(n >= 0)
    f = z3.Function(nm, z3.IntSort(), z3.IntSort() if elem == "int" else z3.RealSort())
    wrap = SInt if elem == "int" else sym.SReal

    def at(k):
      kz = sym._as_int_z(k)
      return wrap(f(kz))

    s = SSeq(n, at, nm)
    s._f = f
    return s

  def _pyvc_symlen(self):
    return self.n

  def _pyvc_at(self, k):
    return self._at(k)

  def __bool__(self):
    return bool(self.n != 0)

  def __len__(self):
    raise Unsupported("len() of symbolic sequence reached CPython")

  def __iter__(self):
    raise Unsupported("iteration over symbolic-length sequence reached CPython")

  def __getitem__(self, idx):
    if isinstance(idx, slice):
      if idx.step is not None:
        raise Unsupported("stepped slice of symbolic sequence")
      lo, hi = norm_slice(idx.start, idx.stop, self.n)
      n2 = sym.smax(hi - lo, 0)
      base = self
      return SSeq(n2, lambda k: base._at(lo + k), f"{self.name}[{lo}:{hi}]")
    k = idx
    ck = sym.concrete_int(k)
    if ck is not None and ck < 0:
      k = self.n + ck
    c = cur()
    c.oblige("seq-index-in-range", sym.sand(k >= 0, k < self.n), kind="definedness")
    return self._at(k)

  def _pyvc_sum(self, start=0):
    c = cur()
    probe = self._at(SInt(c.fresh_int("k_sum")))
    if isinstance(probe, (SInt, int)) and not isinstance(probe, bool):
      from . import spec as _spec
      return _spec.prefix_sum(self, self.n) + start
    key = ("realsum", id(self))
    if key not in c.ghost:
      c.ghost[key] = sym.SReal(c.fresh_real("sum_" + self.name.split("[")[0]))
    return c.ghost[key] + start

  def _pyvc_sorted(self, key, reverse):
    """sorted() of a symbolic sequence: WLOG the sequence is given in sorted order
    (renaming of keys); the order is an obligation on the caller's assumptions."""
    c = cur()
    i = SInt(c.fresh_int("i_sorted"))
    a, b = self._at(i), self._at(i + 1)
    ka, kb = (key(a), key(b)) if key else (a, b)
    c.oblige(f"sorted-input-is-in-order@{getattr(c, 'site', '')}",
             sym.implies(sym.sand(i >= 0, i + 1 < self.n), (ka >= kb) if reverse else (ka <= kb)),
             kind="engine-side-condition")
    c.axioms_used.add("sorted(): returns a permutation ordered by the key (sequence given in sorted order w.l.o.g.)")
    return self

  # spec functions ---------------------------------------------------------
  def prod_prefix(self, i):
    """Product of the first i elements (uninterpreted, with unfolding facts)."""
    return _prefix_fn(self, "prod")(i)

  def sum_prefix(self, i):
    return _prefix_fn(self, "sum")(i)


def _prefix_fn(seq, kind):
  c = cur()
  key = ("prefix", kind, id(seq))
  if key in c.ghost:
    return c.ghost[key]
  f = z3.Function(c.fresh_name(f"{kind}_{seq.name}"), z3.IntSort(), z3.IntSort())
  unit = 1 if kind == "prod" else 0
  c.fact(f(0) == unit, f"{kind}-prefix: empty = {unit}")
  seen = set()

  def fn(i):
    iz = sym._as_int_z(i)
    return SInt(f(iz))

  def unfold(i):
    """prefix(i+1) = prefix(i) (*|+) a[i]   for 0 <= i < n."""
    iz = sym._as_int_z(i)
    k = iz.get_id()
    if k in seen:
      return
    seen.add(k)
    a = sym._as_int_z(seq._at(i))
    rhs = f(iz) * a if kind == "prod" else f(iz) + a
    c.fact(z3.Implies(z3.And(iz >= 0, iz < seq.n.z), f(iz + 1) == rhs),
           f"{kind}-prefix: one-step unfolding")

  fn.unfold = unfold
  fn.f = f
  c.ghost[key] = fn
  return fn


def norm_slice(start, stop, n):
  """Python slice clamping for step 1; returns (lo, hi) with 0<=lo, hi<=n (hi may be < lo)."""

  def clamp(b, default):
    if b is None:
      return default
    cb = sym.concrete_int(b)
    cn = sym.concrete_int(n)
    if cb is not None and cn is not None:
      if cb < 0:
        return max(cn + cb, 0)
      return min(cb, cn)
    if cb is not None and cb == 0:
      return 0
    if cb is not None and cb < 0:
      if sym.prove(n + cb >= 0):
        return n + cb
      return sym.smax(n + cb, 0)
    if sym.prove(sym.sand(b >= 0, b <= n)):
      return b
    if cb is not None:
      return sym.smin(cb, n)
    if sym.prove(sym.sand(b >= 0, b >= n)):
      return n
    return sym.ite(b < 0, sym.smax(n + b, 0), sym.smin(b, n))

  lo = clamp(start, 0)
  hi = clamp(stop, n)
  return lo, hi


class SList:
  """A python list with a symbolic prefix and a concrete suffix of appended items."""

  def __init__(self, prefix, suffix=None):
    self.prefix = prefix
    self.suffix = list(suffix or [])

  def append(self, x):
    self.suffix.append(x)

  def extend(self, xs):
    self.suffix.extend(list(xs))

  def _pyvc_symlen(self):
    return self.prefix.n + len(self.suffix)

  def _pyvc_at(self, k):
    res = None
    n = self.prefix.n
    # k < n -> prefix[k]; else suffix[k-n]
    res = self.suffix[-1] if self.suffix else self.prefix._at(k)
    for j in range(len(self.suffix) - 2, -1, -1):
      res = sym.ite(k == n + j, self.suffix[j], res)
    if self.suffix:
      res = sym.ite(k < n, self.prefix._at(k), res)
    return res

  def __bool__(self):
    if self.suffix:
      return True
    return bool(self.prefix.n != 0)

  def __len__(self):
    raise Unsupported("len() of symbolic list reached CPython")

  def __iter__(self):
    raise Unsupported("iteration over symbolic list reached CPython")

  def __getitem__(self, idx):
    if isinstance(idx, slice):
      raise Unsupported("slice of SList")
    ck = sym.concrete_int(idx)
    if ck is not None and ck < 0 and -ck <= len(self.suffix):
      return self.suffix[ck]
    return self._pyvc_at(idx)

  def __eq__(self, other):
    if isinstance(other, list):
      # lengths must agree and elements agree
      if len(other) < len(self.suffix):
        return False
      n = self._pyvc_symlen()
      conds = [n == len(other)]
      for j, x in enumerate(other):
        conds.append(self._pyvc_at(j) == x)
      return sym.sand(*conds)
    return NotImplemented

  __hash__ = None

  def prod(self):
    p = self.prefix.prod_prefix(self.prefix.n)
    for x in self.suffix:
      p = p * x
    return p


def map_rule(cfr, gen, seq, elt):
  """[elt for target in seq] with symbolic-length seq and a pure elt: pointwise map."""
  if gen.ifs:
    raise Unsupported("filtered comprehension over a symbolic-length sequence")
  c = cur()

  def at(k):
    cfr.assign(gen.target, seq._pyvc_at(k))
    return elt(cfr)

  # evaluate once at a Skolem index so that obligations inside elt surface
  k0 = SInt(c.fresh_int("k_map"))
  c.assume(sym.sand(k0 >= 0, k0 < seq._pyvc_symlen()))
  at(k0)
  c.axioms_used.add("comprehension over a symbolic-length sequence is a pointwise map (element expression assumed pure)")
  return SSeq(seq._pyvc_symlen(), at, "map")


class SMap:
  """dict whose keys are the positions 0..size-1 (symbolic size) with a ghost Sum.

  Store axioms of Sum (Lean Spec.sum_set / sum_append): appending v adds v;
  overwriting position j replaces the old value by the new one in the sum."""

  def __init__(self, size, vals, total):
    self.size, self.vals, self.total = size, vals, total

  def _pyvc_symlen(self):
    return self.size

  def _pyvc_at(self, k):
    return k  # iteration over a dict yields its keys

  def __getitem__(self, k):
    c = cur()
    c.oblige(f"dict-key-present@{getattr(c, 'site', '')}", sym.sand(k >= 0, k < self.size), kind="definedness")
    return self.vals(k)

  def __setitem__(self, k, v):
    c = cur()
    c.axioms_used.add("Sum over a finite map obeys the store axioms (Lean Spec.sum_set, sum_append)")
    old_vals, old_size, old_total = self.vals, self.size, self.total
    is_new = (k == old_size)
    c.oblige(f"dict-store-key-in-domain-or-next@{getattr(c, 'site', '')}", sym.sand(k >= 0, k <= old_size),
             kind="engine-side-condition")
    kk = k
    self.vals = lambda j: sym.ite(j == kk, v, old_vals(j))
    self.size = sym.ite(is_new, old_size + 1, old_size)
    self.total = sym.ite(is_new, old_total + v, old_total - old_vals(kk) + v)

  def update(self, other):
    for k, v in other.items():
      self[k] = v

  def values(self):
    return _SMapValues(self)

  def __len__(self):
    raise Unsupported("len() of symbolic dict reached CPython")

  def __iter__(self):
    raise Unsupported("iteration over symbolic dict reached CPython")


class _SMapValues:

  def __init__(self, m):
    self.m = m

  def _pyvc_sum(self, start=0):
    return self.m.total + start

  def _pyvc_symlen(self):
    return self.m.size

  def _pyvc_at(self, k):
    return self.m.vals(k)


class SRange:
  """range(...) with symbolic bounds."""

  def __init__(self, start, stop, step=1):
    self.start, self.stop, self.step = start, stop, step
    cs = sym.concrete_int(step)
    if cs is None or cs <= 0:
      if cs is None:
        # symbolic positive step: length = ceil((stop-start)/step)
        c = cur()
        c.oblige("range-step-nonzero", step != 0, kind="definedness")
      else:
        raise Unsupported("non-positive range step with symbolic bounds")
    span = stop - start
    if cs == 1:
      self.n = span if sym.prove(span >= 0) else sym.smax(span, 0)
    else:
      # ceil(span / step) for span > 0
      q = (span + step - 1) // step
      self.n = q if sym.prove(q >= 0) else sym.smax(q, 0)
    if not isinstance(self.n, sym.Sym):
      self.n = SInt(z3.IntVal(self.n))

  def _pyvc_symlen(self):
    return self.n

  def _pyvc_at(self, k):
    v = self.start + k * self.step
    c = cur()
    kz = sym._as_int_z(k)
    key = ("range_at", id(self), kz.get_id())
    if key not in c.ghost and isinstance(v, sym.Sym):
      c.ghost[key] = True
      kk = k if isinstance(k, sym.Sym) else SInt(z3.IntVal(k))
      inr = sym.sand(kk >= 0, kk < self.n, self.step > 0)
      c.fact(sym.implies(inr, sym.sand(v >= self.start, v < self.stop)),
             "range: every element lies in [start, stop)")
      c.fact(sym.implies(inr, (kk + 1) * self.step <= self.n * self.step),
             "Lean Spec.mul_le_mul_right: k+1 <= n => (k+1)*s <= n*s for s >= 0")
    return v

  def __iter__(self):
    raise Unsupported("iteration over symbolic range reached CPython")

  def __len__(self):
    raise Unsupported("len() of symbolic range reached CPython")


def b_len(x):
  if hasattr(x, "_pyvc_symlen"):
    return x._pyvc_symlen()
  if hasattr(x, "_pyvc_len"):
    return x._pyvc_len()
  return len(x)


def b_range(*args):
  if any(isinstance(a, sym.Sym) and sym.concrete_int(a) is None for a in args):
    # solver-aided: bounds forced to a single value by the path condition
    forced = [sym.concretize(a) if isinstance(a, sym.Sym) else a for a in args]
    if all(f is not None for f in forced):
      args = forced
  if any(isinstance(a, sym.Sym) and sym.concrete_int(a) is None for a in args):
    if len(args) == 1:
      return SRange(0, args[0], 1)
    if len(args) == 2:
      return SRange(args[0], args[1], 1)
    return SRange(*args)
  args = [sym.concrete_int(a) if isinstance(a, sym.Sym) else a for a in args]
  return range(*args)


def b_int(x=0, *a):
  if isinstance(x, SInt):
    return x
  if isinstance(x, SBool):
    return x.to_int()
  if isinstance(x, sym.SReal):
    if z3.is_app(x.z) and x.z.decl().kind() == z3.Z3_OP_TO_REAL:
      return SInt(x.z.arg(0))
    # truncation toward zero
    fl = z3.ToInt(x.z)
    return SInt(z3.If(x.z >= 0, fl, z3.If(z3.ToReal(fl) == x.z, fl, fl + 1)))
  if hasattr(x, "_pyvc_int"):
    return x._pyvc_int()
  return int(x, *a)


def b_float(x=0.0):
  if isinstance(x, sym.SReal):
    return x
  if isinstance(x, (SInt, SBool)):
    return x.astype_real()
  if hasattr(x, "_pyvc_float"):
    return x._pyvc_float()
  return float(x)


def b_bool(x=False):
  if isinstance(x, sym.Sym):
    return bool(x)
  return bool(x)


def b_abs(x):
  return abs(x)


def b_min(*args, **kw):
  if len(args) == 1:
    args = tuple(args[0])
  if not args:
    if "default" in kw:
      return kw["default"]
    raise ValueError("min() arg is an empty sequence")
  if "key" in kw or not any(isinstance(a, sym.Sym) for a in args):
    kw.pop("default", None)
    return min(args, **kw)
  r = args[0]
  for a in args[1:]:
    r = sym.ite(a < r, a, r)
  return r


def b_max(*args, **kw):
  if len(args) == 1:
    args = tuple(args[0])
  if not args:
    if "default" in kw:
      return kw["default"]
    raise ValueError("max() arg is an empty sequence")
  if "key" in kw or not any(isinstance(a, sym.Sym) for a in args):
    kw.pop("default", None)
    return max(args, **kw)
  r = args[0]
  for a in args[1:]:
    r = sym.ite(a > r, a, r)
  return r


def b_sum(xs, start=0):
  if hasattr(xs, "_pyvc_sum"):
    return xs._pyvc_sum(start)
  r = start
  for x in xs:
    r = r + x
  return r


def b_list(xs=()):
  if isinstance(xs, (SSeq, SList)):
    return xs
  if hasattr(xs, "_pyvc_tolist"):
    return xs._pyvc_tolist()
  return list(xs)


def b_tuple(xs=()):
  if isinstance(xs, (SSeq, SList)):
    return xs
  if hasattr(xs, "_pyvc_tolist"):
    return tuple(xs._pyvc_tolist())
  return tuple(xs)


def b_isinstance(x, t):
  from . import tensor as _T
  if isinstance(x, _T.Tensor) and x.tags.get("numpy_owned"):
    ts_ = t if isinstance(t, tuple) else (t,)
    if any(c is _T.Tensor for c in ts_):
      # jnp.ndarray / jax.Array / np.ndarray are all `Tensor` in the model; a restored state leaf is a NumPy array while the
      # leaf of an uninterrupted run is a jax array: code whose behaviour depends on that test cannot resume identically
      c = cur()
      c.fail(f"frame:array-type-test-on-a-caller-owned-state-leaf@{getattr(c, 'site', '')}", kind="frame",
             detail=f"{x.tags.get('numpy_owned')}: isinstance(leaf, <array type>) distinguishes a restored (NumPy) leaf from a live (jax) one")
  return isinstance(x, t)


def b_sorted(xs, key=None, reverse=False):
  if hasattr(xs, "_pyvc_sorted"):
    return xs._pyvc_sorted(key, reverse)
  return sorted(xs, key=key, reverse=reverse)


def b_enumerate(xs, start=0):
  if hasattr(xs, "_pyvc_symlen"):
    base = xs
    return SSeq(base._pyvc_symlen(), lambda k: (start + k, base._pyvc_at(k)), "enumerate")
  return enumerate(xs, start)


def b_zip(*xss):
  if any(hasattr(x, "_pyvc_symlen") for x in xss):
    lens = [b_len(x) for x in xss]
    n = lens[0]
    for l in lens[1:]:
      n = sym.smin(n, l)
    if not isinstance(n, sym.Sym):
      n = SInt(z3.IntVal(n))

    def at(k):
      return tuple(x._pyvc_at(k) if hasattr(x, "_pyvc_at") else list_getitem(x, k) for x in xss)

    return SSeq(n, at, "zip")
  return zip(*xss)


class _TypeShim(type):
  """Callable like the shimmed builtin type, isinstance-compatible with it."""

  def __instancecheck__(cls, x):
    return isinstance(x, cls._real) or isinstance(x, cls._also)

  def __subclasscheck__(cls, sub):
    return issubclass(sub, cls._real)

  def __call__(cls, *a, **k):
    return cls._fn(*a, **k)

  def __eq__(cls, other):
    return other is cls or other is cls._real

  def __hash__(cls):
    return hash(cls._real)


def _shim(real, fn, also=()):
  return _TypeShim(real.__name__, (), {"_real": real, "_fn": staticmethod(fn), "_also": also})


t_int = _shim(int, b_int)
t_float = _shim(float, b_float)
t_list = _shim(list, b_list, (SList,))
t_tuple = _shim(tuple, b_tuple)

BUILTINS = {
    "len": b_len,
    "range": b_range,
    "int": t_int,
    "float": t_float,
    "min": b_min,
    "max": b_max,
    "sum": b_sum,
    "list": t_list,
    "tuple": t_tuple,
    "sorted": b_sorted,
    "enumerate": b_enumerate,
    "zip": b_zip,
    "isinstance": b_isinstance,
    "print": lambda *a, **k: None,
}
