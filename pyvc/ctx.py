"""Path context: decisions, path condition, obligations, fresh symbols.

One PathCtx is one symbolic execution of a driver from its entry under a
decision prefix (the CrossHair discipline, DESIGN A.2).  Forking re-executes.
"""
from __future__ import annotations

import os
import subprocess
import tempfile
import time

import z3

CUR: "PathCtx | None" = None

FEAS_TIMEOUT_MS = int(os.environ.get("PYVC_FEAS_MS", "4000"))
OBL_TIMEOUT_MS = int(os.environ.get("PYVC_OBL_MS", "20000"))
CVC5_TIMEOUT_S = int(os.environ.get("PYVC_CVC5_S", "60"))
PATH_CAP = int(os.environ.get("PYVC_PATH_CAP", "2048"))


class EngineError(Exception):
  """Engine limit / unsupported construct: exit 3, never a verdict."""


class Unsupported(EngineError):
  pass


class Undecided(Exception):
  """Contract target missing (renamed function / local): exit 2."""


class PathEnd(Exception):
  """Path terminated on purpose (assume False, loop body path finished...)."""


class Obligation:
  __slots__ = ("name", "status", "secs", "backend", "model", "smt2", "kind",
               "detail")

  def __init__(self, name, status, secs, backend, model=None, smt2=None,
               kind="contract", detail=""):
    self.name = name
    self.status = status  # 'unsat' | 'sat' | 'unknown'
    self.secs = secs
    self.backend = backend
    self.model = model
    self.smt2 = smt2
    self.kind = kind
    self.detail = detail

  def as_dict(self):
    return {k: getattr(self, k) for k in self.__slots__}


class PathCtx:

  def __init__(self, prefix=(), outdir=None, label=""):
    self.prefix = list(prefix)
    self.decisions = []
    self.pending = []  # alternative prefixes discovered on this path
    self.pc = []
    self.solver = z3.Solver()
    self.solver.set("timeout", FEAS_TIMEOUT_MS)
    self.obligations = []
    self.counter = {}
    self.outdir = outdir
    self.label = label
    self.axioms_used = set()
    self.assumes = []
    self.index_terms = []  # Skolem index terms for reduction-fact instantiation
    self.index_points = []  # full-rank Skolem index tuples
    self.reductions = []
    self.ghost = {}
    self.inlined = set()
    self.events = []
    self.real_mode = "real"
    self.oblig_names = set()
    self.vacuous = False
    self.lazy = []

  # ---------------------------------------------------------------- symbols
  def fresh_name(self, base):
    n = self.counter.get(base, 0)
    self.counter[base] = n + 1
    return f"{base}!{n}" if n else base

  def fresh_int(self, base):
    return z3.Int(self.fresh_name(base))

  def fresh_real(self, base):
    return z3.Real(self.fresh_name(base))

  def fresh_bool(self, base):
    return z3.Bool(self.fresh_name(base))

  # ---------------------------------------------------------------- pc
  def assume(self, cond, why=""):
    cond = _z(cond)
    if z3.is_true(cond):
      return
    self.pc.append(cond)
    self.solver.add(cond)
    if why:
      self.assumes.append(why)

  def fact(self, cond, axiom, lazy=False):
    """Adds an instantiated library axiom to the path condition.  Lazy facts are used as hypotheses of the
    obligations only (they are kept out of the incremental feasibility / simplification solver)."""
    self.axioms_used.add(axiom)
    cond = _z(cond)
    if lazy:
      self.lazy.append(cond)
      return
    self.pc.append(cond)
    self.solver.add(cond)

  def feasible(self, cond):
    r = self.solver.check(cond)
    return r != z3.unsat

  def fork(self, cond):
    """Decides a symbolic boolean; records the decision; queues the other side."""
    cond = z3.simplify(_z(cond))
    if z3.is_true(cond):
      return True
    if z3.is_false(cond):
      return False
    i = len(self.decisions)
    if i < len(self.prefix):
      d = self.prefix[i]
      self.decisions.append(d)
      self.assume(cond if d else z3.Not(cond))
      return d
    t = self.feasible(cond)
    f = self.feasible(z3.Not(cond))
    if t and f:
      self.pending.append(self.decisions + [False])
      d = True
    elif t:
      d = True
    elif f:
      d = False
    else:
      # path condition itself infeasible: stop silently
      raise PathEnd()
    self.decisions.append(d)
    # forced decisions need no pc entry but adding them helps the solver
    self.assume(cond if d else z3.Not(cond))
    return d

  def choose(self, label):
    """Non-deterministic boolean choice (both sides explored)."""
    b = self.fresh_bool("choice_" + label)
    return self.fork(b)

  # ---------------------------------------------------------------- obligations
  def oblige_abstract(self, name, claim, ops, kind="contract", detail=""):
    """Checks pc => claim after replacing every application of the given operators (z3 decl kinds) by a fresh
    constant of the same sort — a sound generalisation (if the abstracted VC is valid so is the original); used
    when only the ORDER facts about expensive float terms matter."""
    claim = _z(claim)
    t0 = time.time()
    terms = {}

    def visit(e, seen):
      if e.get_id() in seen:
        return
      seen.add(e.get_id())
      if z3.is_app(e):
        if e.decl().kind() in ops:
          terms[e.get_id()] = e
          return
        for ch in e.children():
          visit(ch, seen)

    seen = set()
    for p in self.pc + self.lazy + [claim]:
      visit(p, seen)
    subs = [(e, z3.Const(self.fresh_name("abs"), e.sort())) for e in terms.values()]
    s = z3.Solver()
    s.set("timeout", OBL_TIMEOUT_MS)
    for p in self.pc + self.lazy:
      s.add(z3.substitute(p, *subs) if subs else p)
    s.add(z3.Not(z3.substitute(claim, *subs) if subs else claim))
    r = s.check()
    if r == z3.unsat:
      self.obligations.append(Obligation(name, "unsat", time.time() - t0, "z3(abstracted float operations)", kind=kind, detail=detail))
      self.assume(claim)
      return "unsat"
    return self.oblige(name, claim, kind=kind, detail=detail)

  def oblige(self, name, claim, kind="contract", detail="", assume_after=True):
    """Checks pc => claim.  Records verdict.  Returns status."""
    base = name
    k = 1
    while name in self.oblig_names:
      k += 1
      name = f"{base}~{k}"
    self.oblig_names.add(name)
    claim = _z(claim)
    t0 = time.time()
    simp = z3.simplify(claim)
    if z3.is_true(simp):
      ob = Obligation(name, "unsat", 0.0, "simplify", kind=kind, detail=detail)
      self.obligations.append(ob)
      return "unsat"
    if z3.is_eq(simp) and simp.arg(0).sort() == z3.RealSort():
      # polynomial identities: normalise the difference to a sum of monomials
      try:
        dd = z3.simplify(simp.arg(0) - simp.arg(1), som=True)
        if z3.is_rational_value(dd) and dd.numerator_as_long() == 0:
          ob = Obligation(name, "unsat", time.time() - t0, "z3-simplify(som)", kind=kind, detail=detail)
          self.obligations.append(ob)
          return "unsat"
      except z3.Z3Exception:
        pass
    if z3.is_eq(simp) and simp.arg(0).sort() == z3.RealSort():
      try:
        if _identity_by_cases(simp.arg(0), simp.arg(1), self.pc):
          ob = Obligation(name, "unsat", time.time() - t0, "z3-cases+simplify(som)", kind=kind, detail=detail)
          self.obligations.append(ob)
          if assume_after:
            self.assume(claim)
          return "unsat"
      except z3.Z3Exception:
        pass
    # stage 1: the claim as a pure identity (no hypotheses) — cheap and often enough
    s0 = z3.Solver()
    s0.set("timeout", min(3000, OBL_TIMEOUT_MS))
    s0.add(z3.Not(claim))
    if s0.check() == z3.unsat:
      ob = Obligation(name, "unsat", time.time() - t0, "z3(no-hypotheses)", kind=kind, detail=detail)
      self.obligations.append(ob)
      if assume_after:
        self.assume(claim)
      return "unsat"
    s = z3.Solver()
    s.set("timeout", OBL_TIMEOUT_MS)
    for c in self.pc:
      s.add(c)
    for c in self.lazy:
      s.add(c)
    s.add(z3.Not(claim))
    r = s.check()
    backend = "z3"
    model = None
    smt2 = None
    status = str(r)
    if self.outdir is not None:
      smt2 = os.path.join(self.outdir, _safe(self.label + "__" + name) + ".smt2")
      try:
        with open(smt2, "w") as fh:
          fh.write("; obligation %s\n; negated VC: sat = violated\n" % name)
          fh.write(s.to_smt2())
      except OSError:
        smt2 = None
    if r == z3.sat:
      model = _model_dict(s.model())
    elif r == z3.unknown:
      status, backend, model = _second_opinion(s, smt2)
    ob = Obligation(name, status, time.time() - t0, backend, model, smt2, kind,
                    detail)
    self.obligations.append(ob)
    if assume_after and status == "unsat":
      self.assume(claim)
    elif assume_after:
      # keep exploring the rest of the path under the claim so that one
      # failure does not cascade into many.
      if z3.is_false(simp):
        # a concretely false claim cannot be assumed (it would make every later obligation of the path vacuous and let the
        # driver run on with meaningless data): the path ends here
        raise PathEnd()
      self.assume(claim)
    return status

  def require(self, name, claim, kind="contract", detail=""):
    """oblige(); a concretely false claim also ends the path (later steps would be meaningless)."""
    st = self.oblige(name, claim, kind=kind, detail=detail)
    if st != "unsat" and (claim is False or (hasattr(claim, "z") and z3.is_false(z3.simplify(claim.z)))):
      raise PathEnd()
    return st

  def fail(self, name, kind="definedness", detail=""):
    """An error state reached on a feasible path: pc => False is violated."""
    return self.oblige(name, z3.BoolVal(False), kind=kind, detail=detail,
                       assume_after=False)


def _collect_ite_conds(e, out, seen):
  if e.get_id() in seen:
    return
  seen.add(e.get_id())
  if z3.is_app(e):
    if e.decl().kind() == z3.Z3_OP_ITE:
      c = e.arg(0)
      if all(not c.eq(o) for o in out):
        out.append(c)
    for ch in e.children():
      _collect_ite_conds(ch, out, seen)


def _identity_by_cases(a, b, pc, max_conds=6):
  """a == b by case analysis over the if-then-else conditions occurring in it, each case being a
  polynomial identity established by normalisation to a sum of monomials (divisions and
  uninterpreted applications are atoms).  Cases inconsistent with the linear part of pc are skipped."""
  diff = a - b
  conds = []
  _collect_ite_conds(diff, conds, set())
  if len(conds) > max_conds:
    return False
  import itertools
  lin = z3.Solver()
  lin.set("timeout", 2000)
  for p in pc:
    # only cheap hypotheses (no non-linear terms) are used to discard inconsistent cases
    if len(str(p)) < 400:
      lin.add(p)
  for bits in itertools.product((True, False), repeat=len(conds)):
    lits = [c if bit else z3.Not(c) for c, bit in zip(conds, bits)]
    if conds and lin.check(*lits) == z3.unsat:
      continue
    sub = [(c, z3.BoolVal(bit)) for c, bit in zip(conds, bits)]
    d = z3.simplify(z3.substitute(diff, *sub), som=True) if sub else z3.simplify(diff, som=True)
    if not (z3.is_rational_value(d) and d.numerator_as_long() == 0):
      return False
  return True


def _safe(s):
  return "".join(c if c.isalnum() or c in "._-" else "_" for c in s)[:180]


def _z(x):
  if isinstance(x, bool):
    return z3.BoolVal(x)
  if hasattr(x, "z"):
    return x.z
  return x


def _model_dict(m):
  out = {}
  for d in m.decls():
    try:
      if d.arity() == 0:
        out[d.name()] = str(m[d])
      else:
        out[d.name()] = str(m[d])[:400]
    except Exception:  # pylint: disable=broad-except
      pass
  return out


def _second_opinion(solver, smt2path):
  """z3 said unknown: try cvc5 and the older z3 binary on the SMT-LIB text."""
  text = solver.to_smt2()
  tmp = None
  path = smt2path
  if path is None:
    fd, tmp = tempfile.mkstemp(suffix=".smt2")
    os.close(fd)
    path = tmp
    with open(path, "w") as fh:
      fh.write(text)
  try:
    for backend, cmd in (
        ("cvc5", ["/usr/bin/cvc5", "--tlimit=%d" % (CVC5_TIMEOUT_S * 1000),
                  "--nl-ext-tplanes", path]),
        ("z3-4.8", ["/usr/bin/z3", "-T:%d" % CVC5_TIMEOUT_S, path]),
    ):
      try:
        p = subprocess.run(cmd, capture_output=True, text=True,
                           timeout=CVC5_TIMEOUT_S + 10)
      except (subprocess.TimeoutExpired, OSError):
        continue
      out = p.stdout.strip().splitlines()
      if out and out[0].strip() == "unsat":
        return "unsat", backend, None
      if out and out[0].strip() == "sat":
        return "sat", backend, {"_note": "model from " + backend + " not parsed"}
    return "unknown", "z3+cvc5", None
  finally:
    if tmp:
      os.unlink(tmp)


class TaskResult:

  def __init__(self, task):
    self.task = task
    self.obligations = []
    self.paths = 0
    self.axioms = set()
    self.assumes = set()
    self.inlined = set()
    self.events = []
    self.error = None
    self.undecided = None
    self.secs = 0.0
    self.functions = {}


def run_paths(driver, outdir=None, label=""):
  """Explores all paths of driver(ctx). Returns TaskResult."""
  global CUR
  res = TaskResult(label)
  t0 = time.time()
  stack = [[]]
  while stack:
    prefix = stack.pop()
    ctx = PathCtx(prefix, outdir=outdir, label=f"{label}.p{res.paths}")
    CUR = ctx
    res.paths += 1
    if res.paths > PATH_CAP:
      res.error = f"path cap {PATH_CAP} exceeded"
      break
    try:
      driver(ctx)
    except PathEnd:
      pass
    except Undecided as e:
      res.undecided = str(e)
    finally:
      CUR = None
    for ob in ctx.obligations:
      ob.name = ob.name
      res.obligations.append(ob)
    res.axioms |= ctx.axioms_used
    res.assumes |= set(ctx.assumes)
    res.inlined |= ctx.inlined
    res.events.extend(ctx.events)
    stack.extend(ctx.pending)
  res.secs = time.time() - t0
  return res
