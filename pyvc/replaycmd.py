"""./verify replay <path>: re-runs the native oracle recorded in a replay file."""
import json
import sys

from . import harness as H


def main(args):
  if not args:
    print("usage: ./verify replay <replay.json>")
    return 3
  rec = json.load(open(args[0]))
  pid = rec["property"]
  print(f"replay of {pid} obligation {rec.get('obligation')}")
  res = H.native_oracle(pid, "quick")
  hits = res.get("violations", [])
  print(json.dumps({"oracle_cases": res.get("cases"), "failing_inputs": hits[:5], "error": res.get("error")}, indent=1))
  return 1 if hits else 0
