"""Bit-precise float32 scalars (DESIGN 4.2): z3 FloatingPoint, round-nearest-even, with XLA-CPU's
flush-to-zero / denormals-are-zero behaviour modelled explicitly (ftz around operands and results)."""
from __future__ import annotations

import z3

from . import ctx as _ctx
from . import sym
from . import tensor as T
from .sym import SBool, SInt, cur

F32 = z3.Float32()
RNE = z3.RNE()
FTZ = True


def ftz(v):
  if not FTZ:
    return v
  return z3.If(z3.fpIsSubnormal(v), z3.If(z3.fpIsNegative(v), z3.fpMinusZero(F32), z3.fpPlusZero(F32)), v)


def fpval(x):
  if isinstance(x, SFP):
    return x.z
  if isinstance(x, bool):
    return z3.FPVal(1.0 if x else 0.0, F32)
  if isinstance(x, (int, float)):
    return z3.FPVal(float(x), F32)
  if isinstance(x, SBool):
    return z3.If(x.z, z3.FPVal(1.0, F32), z3.FPVal(0.0, F32))
  if isinstance(x, SInt):
    return z3.fpToFP(RNE, z3.ToReal(x.z), F32)
  return None


class SFP(sym.Sym):
  __slots__ = ()
  _pyvc_fp = True
  _pyvc_dtype = T.float32

  def _bin(self, o, f, swap=False):
    oz = fpval(o)
    if oz is None:
      return NotImplemented
    a, b = (oz, self.z) if swap else (self.z, oz)
    return SFP(ftz(f(RNE, ftz(a), ftz(b))))

  def __add__(self, o):
    return self._bin(o, z3.fpAdd)

  def __radd__(self, o):
    return self._bin(o, z3.fpAdd, True)

  def __sub__(self, o):
    return self._bin(o, z3.fpSub)

  def __rsub__(self, o):
    return self._bin(o, z3.fpSub, True)

  def __mul__(self, o):
    return self._bin(o, z3.fpMul)

  def __rmul__(self, o):
    return self._bin(o, z3.fpMul, True)

  def __truediv__(self, o):
    return self._bin(o, z3.fpDiv)

  def __rtruediv__(self, o):
    return self._bin(o, z3.fpDiv, True)

  def __neg__(self):
    return SFP(z3.fpNeg(self.z))

  def __abs__(self):
    return SFP(z3.fpAbs(self.z))

  def _cmp(self, o, f):
    oz = fpval(o)
    if oz is None:
      return NotImplemented
    return SBool(f(ftz(self.z), ftz(oz)))

  def __lt__(self, o):
    return self._cmp(o, z3.fpLT)

  def __le__(self, o):
    return self._cmp(o, z3.fpLEQ)

  def __gt__(self, o):
    return self._cmp(o, z3.fpGT)

  def __ge__(self, o):
    return self._cmp(o, z3.fpGEQ)

  def __eq__(self, o):
    r = self._cmp(o, z3.fpEQ)
    return False if r is NotImplemented and o is None else r

  def __ne__(self, o):
    r = self._cmp(o, lambda a, b: z3.Not(z3.fpEQ(a, b)))
    return True if r is NotImplemented and o is None else r

  __hash__ = sym.Sym.__hash__

  def __bool__(self):
    return bool(self != 0.0)

  def same_bits(self, o):
    """SMT-LIB `=`: identical value (one NaN; +0 and -0 differ)."""
    return SBool(self.z == fpval(o))

  def is_finite(self):
    return SBool(z3.And(z3.Not(z3.fpIsNaN(self.z)), z3.Not(z3.fpIsInf(self.z))))


class FPInt(sym.Sym):
  """Result of astype(int8/int16) of a float: the truncated float value together with the
  destination width; converting back gives the same float when it is in range, an arbitrary
  value otherwise (wrap-around is not relied upon)."""
  __slots__ = ("bits",)
  _pyvc_fp = True

  def __init__(self, z, bits):
    super().__init__(z)
    self.bits = bits

  def in_range(self):
    hi = float((1 << (self.bits - 1)) - 1)
    lo = -float(1 << (self.bits - 1))
    return SBool(z3.And(z3.fpLEQ(self.z, z3.FPVal(hi, F32)), z3.fpGEQ(self.z, z3.FPVal(lo, F32))))

  def as_float(self):
    g = z3.FP(cur().fresh_name("wrapped"), F32)
    return SFP(z3.If(self.in_range().z, self.z, g))

  def _cmp(self, o, f):
    oz = fpval(o) if not isinstance(o, FPInt) else o.z
    return SBool(f(self.z, oz))

  def __le__(self, o):
    return self._cmp(o, z3.fpLEQ)

  def __ge__(self, o):
    return self._cmp(o, z3.fpGEQ)

  def __eq__(self, o):
    return self._cmp(o, z3.fpEQ)

  def __ne__(self, o):
    return self._cmp(o, lambda a, b: z3.Not(z3.fpEQ(a, b)))

  __hash__ = sym.Sym.__hash__


def fresh_fp(name):
  return SFP(z3.FP(cur().fresh_name(name), F32))


class FPOps(T.ScalarOps):
  fp_sort = F32
  wrap = SFP

  def cast(self, v, src, dst):
    if dst.kind == "f":
      if isinstance(v, FPInt):
        return v.as_float()
      if isinstance(v, SFP):
        return v
      z = fpval(v)
      if z is None:
        raise _ctx.Unsupported(f"cast of {type(v).__name__} to float in fp mode")
      return SFP(z)
    if dst.kind == "b":
      if isinstance(v, (bool, SBool)):
        return v
      return v != 0.0 if isinstance(v, SFP) else (v != 0)
    if dst.kind == "i":
      if isinstance(v, SFP):
        return FPInt(z3.fpRoundToIntegral(z3.RTZ(), v.z), dst.bits)
      return super().cast(v, src, dst)
    return v

  def where(self, c, a, b):
    if isinstance(c, bool):
      return a if c else b
    if isinstance(a, SFP) or isinstance(b, SFP):
      return SFP(z3.If(c.z, fpval(a), fpval(b)))
    return sym.ite(c, a, b)

  def isnan(self, v):
    return SBool(z3.fpIsNaN(v.z)) if isinstance(v, SFP) else False

  def isfinite(self, v):
    return v.is_finite() if isinstance(v, SFP) else True

  def abs(self, v):
    return abs(v)

  def maximum(self, a, b):
    if isinstance(a, SFP) or isinstance(b, SFP):
      az, bz = ftz(fpval(a)), ftz(fpval(b))
      # jnp.maximum propagates NaN
      return SFP(z3.If(z3.fpIsNaN(az), az, z3.If(z3.fpIsNaN(bz), bz, z3.If(z3.fpGEQ(az, bz), az, bz))))
    return super().maximum(a, b)

  def minimum(self, a, b):
    if isinstance(a, SFP) or isinstance(b, SFP):
      az, bz = ftz(fpval(a)), ftz(fpval(b))
      return SFP(z3.If(z3.fpIsNaN(az), az, z3.If(z3.fpIsNaN(bz), bz, z3.If(z3.fpLEQ(az, bz), az, bz))))
    return super().minimum(a, b)

  def round(self, v):
    if isinstance(v, SFP):
      r = SFP(z3.fpRoundToIntegral(RNE, ftz(v.z)))
      cur().ghost.setdefault("rounded", []).append((v, r))
      return r
    return float(round(v))

  def sqrt(self, v):
    return SFP(ftz(z3.fpSqrt(RNE, ftz(fpval(v)))))

  def truth(self, v):
    if isinstance(v, (bool, SBool)):
      return v
    if isinstance(v, SFP):
      return v != 0.0
    return v != 0

  def sign(self, v):
    raise _ctx.Unsupported("sign in fp mode")


def opaque_fp(name, shape):
  """A fresh tensor of arbitrary float32 bit patterns."""
  c = cur()
  nm = c.fresh_name(name)
  f = z3.Function(nm, *([z3.IntSort()] * len(shape)), F32) if shape else None
  k0 = z3.FP(nm, F32) if not shape else None

  def fn(idx):
    if not shape:
      return SFP(k0)
    return SFP(f(*[sym._as_int_z(i) for i in idx]))

  t = T.Tensor(tuple(shape), T.float32, fn)
  t.tags["f"] = f
  return t


class fp_mode:
  """Context manager: bit-precise float32 element arithmetic."""

  def __enter__(self):
    self.old = T.OPS
    T.set_ops(FPOps())
    import pyvc.libs as L
    L.OPS = T.OPS
    return self

  def __exit__(self, *a):
    T.set_ops(self.old)
    import pyvc.libs as L
    L.OPS = self.old
    return False
