"""Standard rounding model (DESIGN 4.2): a float operation returns (exact result)(1+d) with |d| <= 2^-24,
comparisons are exact, rounding to integer differs from the argument by at most 1/2.  Real-valued terms."""
from __future__ import annotations

import z3

from . import sym
from . import tensor as T
from .sym import SBool, SReal, cur

U = z3.RealVal(1) / z3.RealVal(2**24)


def _rz(x):
  if isinstance(x, SRnd):
    return x.z
  return sym._as_real_z(x)


class SRnd(sym.Sym):
  __slots__ = ()
  _pyvc_fp = True
  _pyvc_dtype = T.float32

  def _op(self, o, f, swap=False):
    oz = _rz(o)
    if oz is None:
      return NotImplemented
    a, b = (oz, self.z) if swap else (self.z, oz)
    c = cur()
    d = c.fresh_real("delta")
    c.assume(SBool(z3.And(d >= -U, d <= U)))
    return SRnd(f(a, b) * (1 + d))

  def __add__(self, o):
    return self._op(o, lambda a, b: a + b)

  def __radd__(self, o):
    return self._op(o, lambda a, b: a + b, True)

  def __sub__(self, o):
    return self._op(o, lambda a, b: a - b)

  def __rsub__(self, o):
    return self._op(o, lambda a, b: a - b, True)

  def __mul__(self, o):
    return self._op(o, lambda a, b: a * b)

  def __rmul__(self, o):
    return self._op(o, lambda a, b: a * b, True)

  def __truediv__(self, o):
    return self._op(o, lambda a, b: a / b)

  def __rtruediv__(self, o):
    return self._op(o, lambda a, b: a / b, True)

  def __neg__(self):
    return SRnd(-self.z)

  def __abs__(self):
    return SRnd(z3.If(self.z >= 0, self.z, -self.z))

  def _cmp(self, o, f):
    oz = _rz(o)
    if oz is None:
      return NotImplemented
    return SBool(f(self.z, oz))

  def __lt__(self, o):
    return self._cmp(o, lambda a, b: a < b)

  def __le__(self, o):
    return self._cmp(o, lambda a, b: a <= b)

  def __gt__(self, o):
    return self._cmp(o, lambda a, b: a > b)

  def __ge__(self, o):
    return self._cmp(o, lambda a, b: a >= b)

  def __eq__(self, o):
    r = self._cmp(o, lambda a, b: a == b)
    return False if r is NotImplemented and o is None else r

  def __ne__(self, o):
    r = self._cmp(o, lambda a, b: a != b)
    return True if r is NotImplemented and o is None else r

  __hash__ = sym.Sym.__hash__

  def __bool__(self):
    return bool(self != 0.0)


class RndOps(T.ScalarOps):
  wrap_real = SRnd

  def _lift(self, v):
    if isinstance(v, SRnd):
      return v
    z = sym._as_real_z(v)
    return SRnd(z) if z is not None else v

  def cast(self, v, src, dst):
    if dst.kind == "f":
      return self._lift(v)
    if dst.kind == "i":
      # integral float -> int -> float is exact in range (C11-P1); keep the value
      return self._lift(v)
    return super().cast(v, src, dst)

  def where(self, c, a, b):
    if isinstance(c, bool):
      return a if c else b
    return SRnd(z3.If(c.z, _rz(a), _rz(b)))

  def abs(self, v):
    return abs(self._lift(v))

  def maximum(self, a, b):
    a, b = self._lift(a), self._lift(b)
    return SRnd(z3.If(a.z >= b.z, a.z, b.z))

  def round(self, v):
    v = self._lift(v)
    c = cur()
    q = c.fresh_int("rint")
    c.assume(SBool(z3.And(z3.ToReal(q) - v.z <= z3.RealVal("1/2"), v.z - z3.ToReal(q) <= z3.RealVal("1/2"))))
    c.ghost.setdefault("rounded_rnd", []).append(v)
    return SRnd(z3.ToReal(q))

  def truth(self, v):
    if isinstance(v, (bool, SBool)):
      return v
    return self._lift(v) != 0.0


class rnd_mode:

  def __enter__(self):
    self.old = T.OPS
    T.set_ops(RndOps())
    import pyvc.libs as L
    L.OPS = T.OPS
    self.old_opaque = T.opaque
    return self

  def __exit__(self, *a):
    T.set_ops(self.old)
    import pyvc.libs as L
    L.OPS = self.old
    return False


def opaque_rnd(name, shape):
  t = T.opaque(name, shape)
  base = t._fn
  t._fn = lambda idx: SRnd(base(idx).z)
  return t
