"""Dependency ("reads") analysis of symbolic terms: the relational frame condition of DESIGN 3.4
(block locality).  reads(t) = the set of applications of INPUT function symbols that the value t can depend on,
where reductions / contractions / batched decompositions are expanded through their operands with the reduced
indices replaced by fresh ANY symbols.  Two runs whose inputs agree on every read agree on t (the result is a
function of the reads only): that is the frame condition."""
from __future__ import annotations

import z3

from . import sym
from . import tensor as T
from .sym import SInt, cur


class Reads:

  def __init__(self):
    self.items = []  # (input name, tuple of z3 index terms)
    self.any_syms = []
    self.visited = set()


def register_input(tensor, name=None):
  """Marks an opaque tensor as an input of the relational claim."""
  c = cur()
  f = tensor.tags["f"]
  c.ghost.setdefault("dep_inputs", {})[f.name()] = name or f.name()
  return tensor


def register_derived(fname, operand, n_batch, out_batch_positions=None):
  """An opaque library result (eigh, svd...) whose value at batch index b depends on operand[b, ...] only."""
  cur().ghost.setdefault("dep_derived", {})[fname] = (operand, n_batch)


def _any(reads, lo, hi, label):
  c = cur()
  a = SInt(c.fresh_int("ANY_" + label))
  c.assume(sym.sand(a >= lo, a < hi))
  reads.any_syms.append(a)
  return a


def collect(value, reads=None):
  reads = reads or Reads()
  if isinstance(value, (int, float, bool)) or value is None:
    return reads
  z = value.z if isinstance(value, sym.Sym) else value
  _walk(z, reads)
  return reads


def _walk(z, reads):
  c = cur()
  zid = z.get_id()
  if zid in reads.visited:
    return
  reads.visited.add(zid)
  if not z3.is_app(z):
    return
  d = z.decl()
  name = d.name()
  inputs = c.ghost.get("dep_inputs", {})
  derived = c.ghost.get("dep_derived", {})
  if d.kind() == z3.Z3_OP_UNINTERPRETED and z.num_args() >= 0:
    if name in inputs:
      reads.items.append((inputs[name], tuple(z.children())))
      for ch in z.children():
        _walk(ch, reads)
      return
    obj = _defs().get(name)
    if obj is not None:
      kind, o = obj
      args = [SInt(a) for a in z.children()]
      if kind == "reduction":
        js = tuple(_any(reads, 0, o.x.shape[a], "r") for a in o.axes)
        elem = o.x.at(o.full_index(tuple(args), js))
        collect(elem, reads)
      elif kind == "contraction":
        ks = tuple(_any(reads, 0, dd, "k") for dd in o.contracted)
        collect(o.term_fn(tuple(args), ks), reads)
      for ch in z.children():
        _walk(ch, reads)
      return
    if name in derived:
      operand, nb = derived[name]
      args = [SInt(a) for a in z.children()]
      idx = tuple(args[:nb]) + tuple(_any(reads, 0, dd, "d") for dd in operand.shape[nb:])
      collect(operand.at(idx), reads)
      for ch in z.children():
        _walk(ch, reads)
      return
  if d.kind() == z3.Z3_OP_ITE:
    # a SELECT does not compute on the branch it does not take: when the condition is decided, only that branch is read.
    # (A multiplication by a coefficient that happens to be 0 still reads its other operand: 0 * inf = NaN.)
    cnd = z3.simplify(z.arg(0))
    if z3.is_true(cnd):
      _walk(z.arg(1), reads)
      return
    if z3.is_false(cnd):
      _walk(z.arg(2), reads)
      return
  for ch in z.children():
    _walk(ch, reads)


def _defs():
  c = cur()
  out = c.ghost.get("dep_defs_cache")
  if out is None:
    out = {}
    c.ghost["dep_defs_cache"] = out
  for r in c.reductions:
    out[r.f.name()] = ("reduction", r)
  for con in c.ghost.get("contractions", []):
    out[con.f.name()] = ("contraction", con)
  return out
