"""Pointwise tensors (DESIGN 3.4): shape of concrete rank with symbolic dims,
element function index-tuple -> scalar.  Reductions/contractions produce
uninterpreted symbols with engine-instantiated facts (quantifier-free VCs)."""
from __future__ import annotations

import itertools
import math

import z3

from . import ctx as _ctx
from . import sym
from .ctx import PathEnd, Unsupported
from .sym import SBool, SInt, SReal, cur


class DType:

  def __init__(self, name, kind, bits=0):
    self.name, self.kind, self.bits = name, kind, bits

  def __repr__(self):
    return f"dtype({self.name})"

  def __eq__(self, o):
    if isinstance(o, DType):
      return self.name == o.name
    if o is bool:
      return self.name == "bool"
    if o is int:
      return self.name in ("int32", "int64")
    if o is float:
      return self.name in ("float32", "float64")
    return NotImplemented

  def __ne__(self, o):
    r = self.__eq__(o)
    return r if r is NotImplemented else not r

  def __hash__(self):
    return hash(self.name)

  def __call__(self, x=0):
    # jnp.float32(x) style cast
    return asarray(x, dtype=self)

  @property
  def dtype(self):
    return self


float32 = DType("float32", "f", 32)
float64 = DType("float64", "f", 64)
bfloat16 = DType("bfloat16", "f", 16)
int8 = DType("int8", "i", 8)
int16 = DType("int16", "i", 16)
int32 = DType("int32", "i", 32)
int64 = DType("int64", "i", 64)
bool_ = DType("bool", "b", 1)
DTYPES = {d.name: d for d in (float32, float64, bfloat16, int8, int16, int32, int64, bool_)}
X64 = False


def set_x64(flag):
  """Models jax_enable_x64: default float dtype float64, float64 requests honoured (otherwise truncated to float32)."""
  global X64
  X64 = bool(flag)


def default_float():
  return float64 if X64 else float32


def as_dtype(d):
  if d is None:
    return None
  if isinstance(d, DType):
    # without jax_enable_x64 a float64 request is truncated to float32
    return float32 if (d.name == "float64" and not X64) else d
  if d is bool:
    return bool_
  if d is int or getattr(d, "_real", None) is int:
    return int32
  if d is float or getattr(d, "_real", None) is float:
    return default_float()
  if isinstance(d, str):
    d = DTYPES[d]
    return float32 if (d.name == "float64" and not X64) else d
  nm = getattr(d, "__name__", None) or getattr(d, "name", None)
  if nm in DTYPES:
    return DTYPES[nm]
  if nm == "bool_":
    return bool_
  raise Unsupported(f"dtype {d!r}")


def scalar_dtype(v):
  if isinstance(v, (bool, SBool)):
    return bool_
  if hasattr(v, "bits") and hasattr(v, "in_range"):
    return int8 if v.bits == 8 else int16
  if isinstance(v, (int, SInt)):
    return int32
  if hasattr(v, "_pyvc_dtype"):
    return v._pyvc_dtype
  return default_float()


def result_dtype(*ds):
  kinds = [d.kind for d in ds]
  if "f" in kinds:
    fs = [d for d in ds if d.kind == "f"]
    return max(fs, key=lambda d: d.bits if d.name != "bfloat16" else 16)
  if "i" in kinds:
    return max([d for d in ds if d.kind == "i"], key=lambda d: d.bits)
  return bool_


# ------------------------------------------------------------------ scalars
class ScalarOps:
  """Arithmetic on element scalars; replaced wholesale in fp / rounding modes."""

  def cast(self, v, src, dst):
    if dst.kind == "b":
      if isinstance(v, (bool, SBool)):
        return v
      return v != 0
    if dst.kind == "i":
      if isinstance(v, (bool,)):
        return int(v)
      if isinstance(v, SBool):
        return v.to_int()
      if isinstance(v, (int, SInt)):
        return v
      from .seq import b_int
      return b_int(v)
    # float
    if isinstance(v, bool):
      return float(v)
    if isinstance(v, SBool):
      return v.astype_real()
    if isinstance(v, SInt):
      return v.astype_real()
    if isinstance(v, int):
      return float(v)
    return v

  def const(self, v, dtype):
    return v

  def where(self, c, a, b):
    if isinstance(c, bool):
      return a if c else b
    if isinstance(c, (int, float)) and not isinstance(c, sym.Sym):
      return a if c else b
    return sym.ite(c, a, b)

  def isnan(self, v):
    return False

  def isfinite(self, v):
    return True

  def sqrt(self, v):
    if isinstance(v, (int, float)) and not isinstance(v, bool):
      return math.sqrt(v)
    return sym.ssqrt(v)

  def abs(self, v):
    return abs(v)

  def sign(self, v):
    if isinstance(v, sym.Sym):
      return sym.ite(v > 0, 1.0, sym.ite(v < 0, -1.0, 0.0))
    return float((v > 0) - (v < 0))

  def maximum(self, a, b):
    if isinstance(a, sym.Sym) or isinstance(b, sym.Sym):
      return sym.smax(a, b)
    return max(a, b)

  def minimum(self, a, b):
    if isinstance(a, sym.Sym) or isinstance(b, sym.Sym):
      return sym.smin(a, b)
    return min(a, b)

  def round(self, v):
    """real mode: round half up (differs from half-to-even only at exact ties)."""
    if isinstance(v, (int, float)) and not isinstance(v, bool):
      return float(round(v))
    cur().axioms_used.add("real mode: jnp.round modelled as floor(x + 1/2)")
    return SReal(z3.ToReal(z3.ToInt(sym._as_real_z(v) + z3.RealVal("1/2"))))

  def truth(self, v):
    return v if isinstance(v, (bool, SBool)) else (v != 0)


OPS = ScalarOps()


def set_ops(o):
  global OPS
  OPS = o


def _key(idx):
  out = []
  for i in idx:
    if isinstance(i, sym.Sym):
      out.append(("z", i.z.get_id()))
    else:
      out.append(("c", int(i)))
  return tuple(out)


def _dim_eq(a, b):
  """True if dims are syntactically/concretely equal; obliges equality otherwise."""
  ca, cb = sym.concrete_int(a), sym.concrete_int(b)
  if ca is not None and cb is not None:
    return ca == cb
  if isinstance(a, sym.Sym) and isinstance(b, sym.Sym) and a.z.eq(b.z):
    return True
  return None


def shape_compat(a, b, what):
  r = _dim_eq(a, b)
  if r is True:
    return
  c = cur()
  if r is False:
    c.fail(f"shape:{what}@{getattr(c, 'site', '')}", kind="shape",
           detail=f"{a} vs {b}")
    raise PathEnd()
  c.oblige(f"shape:{what}@{getattr(c, 'site', '')}", a == b, kind="shape",
           detail=f"{a} == {b}")


def _is_one(d):
  return sym.concrete_int(d) == 1


def broadcast_shapes(*shapes):
  r = max(len(s) for s in shapes)
  out = []
  for ax in range(r):
    dims = []
    for s in shapes:
      j = ax - (r - len(s))
      if j >= 0:
        dims.append(s[j])
    nonone = [d for d in dims if not _is_one(d)]
    if not nonone:
      out.append(1)
      continue
    d0 = nonone[0]
    for d in nonone[1:]:
      shape_compat(d0, d, "broadcast")
    out.append(d0)
  return tuple(out)


class Tensor:
  __array_priority__ = 2000
  _pyvc_tensor = True

  def __init__(self, shape, dtype, fn, tags=None):
    self.shape = tuple(shape)
    self.dtype = dtype
    self._fn = fn
    self._cache = {}
    self.tags = tags or {}

  # ---------------------------------------------------------------- basics
  @property
  def ndim(self):
    return len(self.shape)

  @property
  def size(self):
    r = 1
    for d in self.shape:
      r = r * d
    return r

  @property
  def T(self):
    return transpose(self)

  def at(self, idx):
    idx = tuple(idx)
    if len(idx) != len(self.shape):
      raise _ctx.EngineError(f"rank mismatch in Tensor.at: {idx} vs {self.shape}")
    k = _key(idx)
    v = self._cache.get(k)
    if v is None and k not in self._cache:
      v = self._fn(idx)
      self._cache[k] = v
    return v

  def item(self):
    if self.shape:
      raise Unsupported("item() of non-scalar tensor")
    return self.at(())

  def __repr__(self):
    return f"Tensor(shape={self.shape}, {self.dtype.name})"

  def __bool__(self):
    if any(not _is_one(d) for d in self.shape):
      raise Unsupported("truth value of a non-scalar tensor")
    return bool(OPS.truth(self.at((0,) * len(self.shape))))

  def _pyvc_truth(self):
    v = OPS.truth(self.at((0,) * len(self.shape)))
    return v if isinstance(v, SBool) else SBool(z3.BoolVal(bool(v)))

  def _pyvc_int(self):
    if any(not _is_one(d) for d in self.shape):
      raise Unsupported("int() of non-scalar tensor")
    from .seq import b_int
    return b_int(self.at((0,) * len(self.shape)))

  def _pyvc_float(self):
    from .seq import b_float
    return b_float(self.at((0,) * len(self.shape)))

  def _pyvc_len(self):
    if not self.shape:
      raise TypeError("len() of unsized object")
    return self.shape[0]

  def __len__(self):
    n = sym.concretize(self.shape[0]) if self.shape else None
    if n is None:
      raise Unsupported("len() of tensor with symbolic leading dim reached CPython")
    return n

  def __iter__(self):
    n = sym.concretize(self.shape[0]) if self.shape else None
    if n is None:
      raise Unsupported("iteration over tensor with symbolic leading dim")
    if len(self.shape) == 1:
      if self.tags.get("numpy_float64_value"):
        # iterating a NumPy float64 array yields np.float64 scalars (strongly typed, unlike python floats)
        return iter([Tensor((), self.dtype, (lambda idx, i=i: self.at((i,))), {"numpy_float64_value": self.tags["numpy_float64_value"]})
                     for i in range(n)])
      # numpy yields scalars when iterating a 1-D array
      return iter([self.at((i,)) for i in range(n)])
    return iter([self[i] for i in range(n)])

  def __hash__(self):
    return id(self)

  # ---------------------------------------------------------------- dtype
  def astype(self, dt):
    dt = as_dtype(dt)
    src = self.dtype
    if dt == src:
      return Tensor(self.shape, dt, self._fn, _tags(self))
    return Tensor(self.shape, dt, lambda idx: OPS.cast(self.at(idx), src, dt),
                  _tags(self))

  # ---------------------------------------------------------------- arithmetic
  def _bin(self, o, f, swap=False, cmp=False):
    if o is None or isinstance(o, (str, list, tuple, dict)):
      if isinstance(o, (list, tuple)) and not swap:
        o = asarray(o)
      else:
        return NotImplemented
    return ew((lambda a, b: f(b, a)) if swap else f, self, o, cmp=cmp)

  def __add__(self, o):
    return self._bin(o, lambda a, b: a + b)

  def __radd__(self, o):
    return self._bin(o, lambda a, b: a + b, swap=True)

  def __sub__(self, o):
    return self._bin(o, lambda a, b: a - b)

  def __rsub__(self, o):
    return self._bin(o, lambda a, b: a - b, swap=True)

  def __mul__(self, o):
    return self._bin(o, _mul)

  def __rmul__(self, o):
    return self._bin(o, _mul, swap=True)

  def __truediv__(self, o):
    return self._bin(o, _div)

  def __rtruediv__(self, o):
    return self._bin(o, _div, swap=True)

  def __floordiv__(self, o):
    return self._bin(o, lambda a, b: a // b)

  def __rfloordiv__(self, o):
    return self._bin(o, lambda a, b: a // b, swap=True)

  def __mod__(self, o):
    return self._bin(o, lambda a, b: a % b)

  def __pow__(self, o):
    return self._bin(o, _pow)

  def __rpow__(self, o):
    return self._bin(o, _pow, swap=True)

  def __neg__(self):
    return ew(lambda a: -a, self)

  def __pos__(self):
    return self

  def __abs__(self):
    return ew(OPS.abs, self)

  def __invert__(self):
    return ew(lambda a: sym.snot(a) if isinstance(a, (bool, SBool)) else ~a, self)

  def __and__(self, o):
    return self._bin(o, _and, cmp=True)

  __rand__ = __and__

  def __or__(self, o):
    return self._bin(o, _or, cmp=True)

  __ror__ = __or__

  def __lt__(self, o):
    return self._bin(o, lambda a, b: a < b, cmp=True)

  def __le__(self, o):
    return self._bin(o, lambda a, b: a <= b, cmp=True)

  def __gt__(self, o):
    return self._bin(o, lambda a, b: a > b, cmp=True)

  def __ge__(self, o):
    return self._bin(o, lambda a, b: a >= b, cmp=True)

  def __eq__(self, o):
    if o is None:
      return False
    return self._bin(o, lambda a, b: a == b, cmp=True)

  def __ne__(self, o):
    if o is None:
      return True
    return self._bin(o, lambda a, b: a != b, cmp=True)

  def __matmul__(self, o):
    return matmul(self, o)

  # ---------------------------------------------------------------- methods
  def reshape(self, *shape, **kw):
    _no_kw("reshape", kw)
    if len(shape) == 1 and isinstance(shape[0], (list, tuple)):
      shape = shape[0]
    return reshape(self, shape)

  def transpose(self, *axes):
    if len(axes) == 1 and isinstance(axes[0], (list, tuple)):
      axes = axes[0]
    return transpose(self, list(axes) if axes else None)

  def ravel(self):
    return reshape(self, (-1,))

  def flatten(self):
    return reshape(self, (-1,))

  def sum(self, axis=None, **kw):
    return rsum(self, axis=axis, **kw)

  def mean(self, axis=None, **kw):
    return rmean(self, axis=axis, **kw)

  def max(self, axis=None, **kw):
    return rmax(self, axis=axis, **kw)

  def min(self, axis=None, **kw):
    return rmin(self, axis=axis, **kw)

  def all(self, axis=None):
    return rall(self, axis=axis)

  def any(self, axis=None):
    return rany(self, axis=axis)

  def dot(self, o, precision=None):
    return matmul(self, o)

  def squeeze(self, axis=None):
    return squeeze(self, axis)

  @property
  def at_(self):
    return _At(self)

  def __getattr__(self, name):
    if name == "at":
      raise AttributeError(name)
    raise AttributeError(name)

  # ---------------------------------------------------------------- indexing
  def __getitem__(self, idx):
    return getitem(self, idx)

  def __setitem__(self, idx, v):
    # numpy-style in-place store (np arrays in BlockPartitioner)
    old = Tensor(self.shape, self.dtype, self._fn, _tags(self))
    new = setitem(old, idx, v)
    self._fn = new._fn
    self._cache = {}
    self.shape = new.shape


# `x.at[idx].set(v)`: `at` is a method above; jnp uses a property.  We expose
# the property under the name `at` through a descriptor trick: Tensor.at is a
# callable object that is also subscriptable.
class _AtDescriptor:

  def __get__(self, obj, objtype=None):
    if obj is None:
      return self
    return _AtCallable(obj)


class _AtCallable:

  def __init__(self, t):
    self.t = t

  def __call__(self, idx):
    return Tensor._at_impl(self.t, idx)

  def __getitem__(self, idx):
    return _AtIndexed(self.t, idx)


class _AtIndexed:

  def __init__(self, t, idx):
    self.t, self.idx = t, idx

  def set(self, v):
    return setitem(self.t, self.idx, v)

  def add(self, v):
    return setitem(self.t, self.idx, getitem(self.t, self.idx) + v)

  def multiply(self, v):
    return setitem(self.t, self.idx, getitem(self.t, self.idx) * v)

  def get(self):
    return getitem(self.t, self.idx)


Tensor._at_impl = Tensor.at
Tensor.at = _AtDescriptor()


def _mul(a, b):
  # 0 * x = 0 syntactically (keeps VCs small; sound in real mode)
  if isinstance(a, (int, float)) and not isinstance(a, bool) and a == 0 and not hasattr(b, "_pyvc_fp"):
    return 0.0 if isinstance(a, float) or isinstance(b, (float, SReal)) else 0
  if isinstance(b, (int, float)) and not isinstance(b, bool) and b == 0 and not hasattr(a, "_pyvc_fp"):
    return 0.0 if isinstance(b, float) or isinstance(a, (float, SReal)) else 0
  if isinstance(a, (bool, SBool)):
    a = OPS.cast(a, bool_, int32)
  if isinstance(b, (bool, SBool)):
    b = OPS.cast(b, bool_, int32)
  return a * b


def _div(a, b):
  if isinstance(a, (bool, SBool)):
    a = OPS.cast(a, bool_, float32)
  if isinstance(b, (bool, SBool)):
    b = OPS.cast(b, bool_, float32)
  if isinstance(b, (int, float)) and not isinstance(a, sym.Sym) and not hasattr(a, "_pyvc_fp"):
    if b == 0:
      raise Unsupported("concrete tensor division by zero (inf/nan) in real mode")
    return a / b
  return a / b


def _pow(a, b):
  return a**b


def _and(a, b):
  if isinstance(a, (bool, SBool)) and isinstance(b, (bool, SBool)):
    return sym.sand(a, b) if isinstance(a, SBool) or isinstance(b, SBool) else (a and b)
  return a & b


def _or(a, b):
  if isinstance(a, (bool, SBool)) and isinstance(b, (bool, SBool)):
    return sym.sor(a, b) if isinstance(a, SBool) or isinstance(b, SBool) else (a or b)
  return a | b


# ------------------------------------------------------------------ construction
def _tags(t):
  """Tags that survive an operation: results of jnp operations are fresh arrays (not caller-owned)."""
  return {k: v for k, v in t.tags.items() if k not in ("numpy_owned", "reduction", "contraction", "tensordot", "einsum")}


def is_tensor(x):
  return isinstance(x, Tensor)


def asarray(x, dtype=None):
  dtype = as_dtype(dtype)
  if isinstance(x, Tensor):
    return x.astype(dtype) if dtype is not None else x
  if isinstance(x, (list, tuple)):
    if not x:
      return Tensor((0,), dtype or default_float(), lambda idx: 0.0)
    elems = [asarray(e) for e in x]
    return stack(elems, 0) if dtype is None else stack(elems, 0).astype(dtype)
  if hasattr(x, "_pyvc_symlen"):
    n = x._pyvc_symlen()
    base = x
    probe = None
    return Tensor((n,), dtype or int32, lambda idx: base._pyvc_at(idx[0]))
  try:
    import numpy as np
    if isinstance(x, np.ndarray):
      arr = x
      dt = dtype or as_dtype(str(arr.dtype)) if str(arr.dtype) in DTYPES else (dtype or float32)
      return Tensor(arr.shape, dt, lambda idx, arr=arr: arr[tuple(int(sym.concrete_int(i)) for i in idx)].item())
  except ImportError:
    pass
  # scalar
  src = scalar_dtype(x)
  dt = dtype or src
  v = OPS.cast(x, src, dt) if dt != src else x
  return Tensor((), dt, lambda idx, v=v: v)


def full(shape, v, dtype=None):
  if not isinstance(shape, (list, tuple)):
    shape = (shape,)
  dt = as_dtype(dtype) or scalar_dtype(v)
  if isinstance(v, Tensor):
    v = v.item()
  v = OPS.cast(v, scalar_dtype(v), dt)
  return Tensor(tuple(shape), dt, lambda idx: v)


def zeros(shape, dtype=None):
  dt = as_dtype(dtype) or default_float()
  return full(shape, 0.0 if dt.kind == "f" else (False if dt.kind == "b" else 0), dt)


def ones(shape, dtype=None):
  dt = as_dtype(dtype) or default_float()
  return full(shape, 1.0 if dt.kind == "f" else (True if dt.kind == "b" else 1), dt)


def eye(n, m=None, dtype=None, k=0):
  dt = as_dtype(dtype) or default_float()
  m = n if m is None else m
  one = OPS.cast(1, int32, dt)
  zero = OPS.cast(0, int32, dt)

  def fn(idx):
    i, j = idx
    c = (i + k == j) if k else (i == j)
    return OPS.where(c, one, zero)

  return Tensor((n, m), dt, fn)


def arange(start, stop=None, step=None, dtype=None):
  if stop is None:
    start, stop = 0, start
  step = 1 if step is None else step
  dt = as_dtype(dtype) or int32
  span = stop - start
  if sym.concrete_int(step) == 1:
    n = span
    cn = sym.concrete_int(n)
    if cn is not None:
      n = max(cn, 0)
  else:
    n = (span + step - 1) // step
  return Tensor((n,), dt, lambda idx: OPS.cast(start + idx[0] * step, int32, dt))


# ------------------------------------------------------------------ elementwise
def _lift_operand(o):
  if isinstance(o, Tensor):
    return o
  if isinstance(o, (list, tuple)):
    return asarray(o)
  try:
    import numpy as np
    if isinstance(o, np.ndarray):
      return asarray(o)
  except ImportError:
    pass
  return None


def note_use(t):
  """Closure-capture rule (C14, F16/F23): inside the traced region of a lax control-flow primitive (cond / while_loop
  bodies are compiled even in eager mode) a caller-owned NumPy state leaf that is CAPTURED rather than passed as an
  operand becomes a compile-time constant; computing on it may round differently from the uninterrupted run.
  Returning / selecting it unchanged is harmless and is not flagged."""
  if isinstance(t, Tensor) and t.tags.get("numpy_owned"):
    c = sym._ctx.CUR
    if c is not None and c.ghost.get("traced_regions"):
      region = c.ghost["traced_regions"][-1]
      c.fail(f"frame:traced-region-computes-on-a-captured-caller-owned-state-leaf@{region}", kind="frame",
             detail=f"{t.tags.get('numpy_owned')}: restored NumPy leaves must be passed as operands or converted with jnp.asarray "
                    "before a lax.cond / lax.while_loop body closes over them")


class traced_region:
  """Entered by the lax.cond / lax.while_loop contracts around the branch / body functions."""

  def __init__(self, name):
    self.name = name

  def __enter__(self):
    self.c = sym._ctx.CUR
    if self.c is not None:
      self.c.ghost.setdefault("traced_regions", []).append(self.name)
    return self

  def __exit__(self, *a):
    if self.c is not None:
      self.c.ghost["traced_regions"].pop()
    return False


def as_operands(tree):
  """Operands of a traced region are run-time arguments: inside the region they are fresh arrays (no ownership tag),
  while a captured reference to the same NumPy leaf stays a captured constant."""
  from . import pytree

  def f(l):
    if isinstance(l, Tensor) and l.tags.get("numpy_owned"):
      return Tensor(l.shape, l.dtype, l._fn, _tags(l))
    return l

  return pytree.tree_map(f, tree)


def ew(f, *operands, cmp=False, dtype=None):
  ts = []
  for o in operands:
    t = _lift_operand(o)
    note_use(t)
    ts.append(t)
  if len(ts) > 1 and not cmp:
    owned = [t for t in ts if t is not None and t.tags.get("numpy_owned") and t.dtype.kind == "f" and t.dtype.name != "float64"]
    strong = [t for t in ts if t is not None and t.tags.get("numpy_float64_value")]
    if owned and strong:
      c = sym._ctx.CUR
      if c is not None:
        c.fail(f"frame:numpy-promotion-on-a-caller-owned-state-leaf@{getattr(c, 'site', '')}", kind="frame",
               detail=f"{owned[0].tags.get('numpy_owned')} ({owned[0].dtype.name}) combined with a float64 NumPy value from np.{strong[0].tags['numpy_float64_value']}: "
                      "NumPy computes this in float64 on a restored state, jax in float32 on the uninterrupted one")
  shapes = [t.shape for t in ts if t is not None]
  out_shape = broadcast_shapes(*shapes) if shapes else ()
  r = len(out_shape)
  if dtype is None:
    if cmp:
      dtype = bool_
    else:
      tds = [t.dtype for t in ts if t is not None]
      sds = [scalar_dtype(o) for o, t in zip(operands, ts) if t is None]
      # weak typing of python scalars: they do not promote float tensors
      dtype = result_dtype(*(tds or sds)) if tds else result_dtype(*sds)
      if tds and dtype.kind in ("i", "b") and any(d.kind == "f" for d in sds):
        dtype = float32
      if tds and dtype.kind == "b" and any(d.kind == "i" for d in sds):
        dtype = int32

  def fn(idx):
    vals = []
    for o, t in zip(operands, ts):
      if t is None:
        vals.append(o)
      else:
        off = r - len(t.shape)
        tidx = tuple(0 if _is_one(d) else idx[off + j] for j, d in enumerate(t.shape))
        vals.append(t.at(tidx))
    return f(*vals)

  return Tensor(out_shape, dtype, fn)


def where(c, a, b):
  dt = result_dtype(*[(x.dtype if isinstance(x, Tensor) else scalar_dtype(x)) for x in (a, b)])
  if any(isinstance(x, Tensor) for x in (a, b)):
    tds = [x.dtype for x in (a, b) if isinstance(x, Tensor)]
    dt = result_dtype(*tds)
  return ew(lambda cc, x, y: OPS.where(OPS.truth(cc), _cast_s(x, dt), _cast_s(y, dt)), c, a, b, dtype=dt)


def _cast_s(v, dt):
  src = scalar_dtype(v)
  if src.kind != dt.kind:
    return OPS.cast(v, src, dt)
  return v


# ------------------------------------------------------------------ indexing
class _NewAxis:
  pass


def _norm_index(t, idx):
  if not isinstance(idx, tuple):
    idx = (idx,)
  # expand ellipsis
  n_real = sum(1 for i in idx if i is not None and i is not Ellipsis)
  if any(i is Ellipsis for i in idx):
    k = list(idx).index(Ellipsis)
    fill = (slice(None),) * (t.ndim - n_real)
    idx = idx[:k] + fill + idx[k + 1:]
  else:
    idx = idx + (slice(None),) * (t.ndim - n_real)
  return idx


def getitem(t, idx):
  idx = _norm_index(t, idx)
  out_shape = []
  plan = []  # per output axis or fixed: ('fix', i) / ('slice', lo) / ('new',)
  ax = 0
  for it in idx:
    if it is None:
      out_shape.append(1)
      plan.append(("new", None))
      continue
    d = t.shape[ax]
    if isinstance(it, slice):
      if it.step is not None and it.step != 1:
        raise Unsupported("stepped tensor slice")
      from .seq import norm_slice
      lo, hi = norm_slice(it.start, it.stop, d)
      if it.start is None and it.stop is None:
        n = d
      else:
        n = hi - lo
        cn = sym.concrete_int(n)
        if cn is not None:
          n = max(cn, 0)
        elif sym.prove(n >= 0):
          n = SInt(z3.simplify(n.z))
        else:
          n = sym.smax(n, 0)
          s = z3.simplify(n.z)
          n = SInt(s)
      out_shape.append(n)
      plan.append(("slice", lo))
    else:
      if isinstance(it, Tensor):
        if it.shape:
          raise Unsupported("advanced (array) indexing")
        it = it.item()
      ci = sym.concrete_int(it)
      if ci is not None:
        if ci < 0:
          it = d + ci
        else:
          it = ci
      _check_index(it, d)
      plan.append(("fix", it))
    ax += 1

  def fn(oidx):
    src = []
    k = 0
    for kind, v in plan:
      if kind == "new":
        k += 1
      elif kind == "slice":
        src.append(oidx[k] + v if not (isinstance(v, int) and v == 0) else oidx[k])
        k += 1
      else:
        src.append(v)
    return t.at(tuple(src))

  tags = {"numpy_owned": t.tags["numpy_owned"] + "[view]"} if t.tags.get("numpy_owned") else {}
  return Tensor(tuple(out_shape), t.dtype, fn, tags)


def _check_index(i, d):
  ci, cd = sym.concrete_int(i), sym.concrete_int(d)
  if ci is not None and cd is not None:
    if not 0 <= ci < cd:
      c = cur()
      c.fail(f"tensor-index@{getattr(c, 'site', '')}", kind="definedness",
             detail=f"index {ci} out of range for axis of size {cd} (jnp would clamp silently)")
      raise PathEnd()
    return
  c = cur()
  c.oblige(f"tensor-index@{getattr(c, 'site', '')}", sym.sand(i >= 0, i < d),
           kind="definedness", detail=f"0 <= {i} < {d}")


def setitem(t, idx, v):
  idx = _norm_index(t, idx)
  if any(i is None for i in idx):
    raise Unsupported("newaxis in indexed store")
  vt = _lift_operand(v)
  conds = []  # per axis: ('fix', i) or ('slice', lo, hi)
  region_shape = []
  for ax, it in enumerate(idx):
    d = t.shape[ax]
    if isinstance(it, slice):
      from .seq import norm_slice
      lo, hi = norm_slice(it.start, it.stop, d)
      conds.append(("slice", lo, hi))
      n = hi - lo
      cn = sym.concrete_int(n)
      region_shape.append(max(cn, 0) if cn is not None else n)
    else:
      if isinstance(it, Tensor):
        it = it.item()
      ci = sym.concrete_int(it)
      if ci is not None and ci < 0:
        it = d + ci
      elif ci is not None:
        it = ci
      _check_index(it, d)
      conds.append(("fix", it))
  if vt is not None:
    # value must broadcast to region shape
    off = len(region_shape) - len(vt.shape)
    if off < 0:
      raise Unsupported("stored value has higher rank than region")
    for j, dv in enumerate(vt.shape):
      if not _is_one(dv):
        shape_compat(dv, region_shape[off + j], "indexed-store")
  dt = t.dtype

  def fn(oidx):
    inside = []
    ridx = []
    for ax, cnd in enumerate(conds):
      if cnd[0] == "fix":
        inside.append(oidx[ax] == cnd[1])
      else:
        inside.append(sym.sand(oidx[ax] >= cnd[1], oidx[ax] < cnd[2]))
        ridx.append(oidx[ax] - cnd[1] if not (isinstance(cnd[1], int) and cnd[1] == 0) else oidx[ax])
    cin = True
    for c_ in inside:
      if isinstance(c_, bool):
        if not c_:
          cin = False
          break
      else:
        cin = c_ if cin is True else sym.sand(cin, c_)
    if isinstance(cin, SBool):
      sc = z3.simplify(cin.z)
      if z3.is_false(sc):
        cin = False
      elif z3.is_true(sc):
        cin = True
    if cin is False:
      return t.at(oidx)
    if vt is None:
      newv = _cast_s(v, dt)
    else:
      off = len(ridx) - len(vt.shape)
      vidx = tuple(0 if _is_one(dv) else ridx[off + j] for j, dv in enumerate(vt.shape))
      newv = _cast_s(vt.at(vidx), dt)
    if cin is True:
      return newv
    return OPS.where(cin, newv, t.at(oidx))

  return Tensor(t.shape, dt, fn, _tags(t))


# ------------------------------------------------------------------ shape ops
def _norm_axis(a, r):
  ca = sym.concrete_int(a)
  if ca is None:
    raise Unsupported("symbolic axis")
  if ca < 0:
    ca += r
  if not 0 <= ca < r:
    c = cur()
    c.fail(f"axis-out-of-range@{getattr(c, 'site', '')}", kind="shape", detail=f"axis {a} for rank {r}")
    raise PathEnd()
  return ca


def transpose(t, axes=None):
  t = asarray(t)
  r = t.ndim
  if axes is None:
    axes = list(range(r))[::-1]
  axes = [_norm_axis(a, r) for a in axes]
  if sorted(axes) != list(range(r)):
    c = cur()
    c.fail(f"transpose-perm@{getattr(c, 'site', '')}", kind="shape", detail=str(axes))
    raise PathEnd()
  shape = tuple(t.shape[a] for a in axes)

  def fn(idx):
    src = [None] * r
    for o, a in enumerate(axes):
      src[a] = idx[o]
    return t.at(tuple(src))

  return Tensor(shape, t.dtype, fn, _tags(t))


def moveaxis(t, src, dst):
  r = t.ndim
  src, dst = _norm_axis(src, r), _norm_axis(dst, r)
  order = [a for a in range(r) if a != src]
  order.insert(dst, src)
  return transpose(t, order)


def expand_dims(t, axis):
  t = asarray(t)
  axis = _norm_axis(axis, t.ndim + 1)
  shape = t.shape[:axis] + (1,) + t.shape[axis:]
  return Tensor(shape, t.dtype, lambda idx: t.at(idx[:axis] + idx[axis + 1:]), _tags(t))


def squeeze(t, axis=None):
  t = asarray(t)
  if axis is None:
    # every unit axis is removed; a symbolic dim may or may not be 1: fork
    drop = []
    for a, d in enumerate(t.shape):
      cd = sym.concrete_int(d)
      if cd is not None:
        if cd == 1:
          drop.append(a)
      elif bool(d == 1):
        drop.append(a)
  else:
    axes = axis if isinstance(axis, (list, tuple)) else [axis]
    drop = [_norm_axis(a, t.ndim) for a in axes]
    for a in drop:
      shape_compat(t.shape[a], 1, "squeeze-axis")
  keep = [a for a in range(t.ndim) if a not in drop]
  shape = tuple(t.shape[a] for a in keep)

  def fn(idx):
    src = [0] * t.ndim
    for o, a in enumerate(keep):
      src[a] = idx[o]
    return t.at(tuple(src))

  return Tensor(shape, t.dtype, fn, _tags(t))


def _prod(xs):
  r = 1
  for x in xs:
    r = r * x
  return r


def reshape(t, shape):
  t = asarray(t)
  if isinstance(shape, (int, SInt)):
    shape = (shape,)
  if hasattr(shape, "_pyvc_symlen"):
    raise Unsupported("reshape to a shape of symbolic rank")
  shape = list(shape)
  # resolve -1
  neg = [i for i, d in enumerate(shape) if sym.concrete_int(d) == -1]
  if neg:
    known = _prod([d for i, d in enumerate(shape) if i != neg[0]])
    total = t.size
    ck, ct = sym.concrete_int(known), sym.concrete_int(total)
    if ck is not None and ct is not None:
      if ck == 0 or ct % ck:
        c = cur()
        c.fail(f"reshape-size@{getattr(c, 'site', '')}", kind="shape")
        raise PathEnd()
      shape[neg[0]] = ct // ck
    else:
      # try structural: cancel common leading dims
      rest = list(t.shape)
      ok = True
      for i, d in enumerate(shape):
        if i == neg[0]:
          continue
        m = [j for j, x in enumerate(rest) if _dim_eq(x, d) is True]
        if m:
          rest.pop(m[0])
        elif sym.concrete_int(d) == 1:
          pass
        else:
          ok = False
      if not ok:
        q = cur().fresh_int("reshape_dim")
        cur().assume(sym.SInt(q) * known == total)
        shape[neg[0]] = SInt(q)
      else:
        shape[neg[0]] = _prod(rest)
  shape = tuple(shape)
  # dims that the path condition forces to 1 are treated as unit dims
  t = _unit_view(t)
  shape_u = tuple(1 if _provably_one(d) else d for d in shape)
  if any(a is not b for a, b in zip(shape_u, shape)):
    inner = reshape(t, shape_u)
    return Tensor(shape, inner.dtype, inner._fn, dict(inner.tags))
  # size obligation
  same = len(shape) == len(t.shape) and all(_dim_same(a, b) for a, b in zip(shape, t.shape))
  if same:
    return Tensor(shape, t.dtype, t._fn, _tags(t))
  src_nz = [(i, d) for i, d in enumerate(t.shape) if not _is_one(d)]
  dst_nz = [(i, d) for i, d in enumerate(shape) if not _is_one(d)]
  if len(src_nz) == len(dst_nz) and all(_dim_same(a[1], b[1]) for a, b in zip(src_nz, dst_nz)):
    # only unit axes inserted / removed
    def fn(idx):
      src = [0] * t.ndim
      for (si, _), (di, _) in zip(src_nz, dst_nz):
        src[si] = idx[di]
      return t.at(tuple(src))

    return Tensor(shape, t.dtype, fn, _tags(t))
  st, ss = t.size, _prod(shape)
  cst, css = sym.concrete_int(st), sym.concrete_int(ss)
  if cst is not None and css is not None:
    if cst != css:
      c = cur()
      c.fail(f"reshape-size@{getattr(c, 'site', '')}", kind="shape", detail=f"{t.shape} -> {shape}")
      raise PathEnd()
  else:
    cur().oblige(f"reshape-size@{getattr(cur(), 'site', '')}", st == ss, kind="shape",
                 detail=f"{t.shape} -> {shape}")
  groups = _reshape_groups(t.shape, shape)
  if groups is not None:
    return _reshape_grouped(t, shape, groups)

  def fn(idx):
    flat = None
    for i, d in zip(idx, shape):
      flat = i if flat is None else flat * d + i
    if flat is None:
      flat = 0
    if not t.shape:
      return t.at(())
    src = []
    rem = flat
    for d in reversed(t.shape[1:]):
      src.append(_mod_known(rem, d))
      rem = _div_known(rem, d)
    src.append(rem)
    return t.at(tuple(reversed(src)))

  cur().axioms_used.add("reshape preserves the row-major flat view")
  return Tensor(shape, t.dtype, fn, _tags(t))


def _radix_bound(flat, idxs, dims):
  """Lemma (Lean Spec.radix_bound): 0<=i_k<d_k for all k  =>  0 <= flat < prod d_k."""
  if not isinstance(flat, sym.Sym):
    return
  c = cur()
  key = ("radix", flat.z.get_id())
  if key in c.ghost:
    return
  c.ghost[key] = True
  pre = sym.sand(*[sym.sand(i >= 0, i < d) for i, d in zip(idxs, dims)])
  c.fact(sym.implies(pre, sym.sand(flat >= 0, flat < _prod(dims))),
         "Lean Spec.radix_bound: mixed-radix index is below the product of the radices")


def _provably_one(d):
  if not isinstance(d, sym.Sym):
    return d == 1
  if sym.concrete_int(d) is not None:
    return sym.concrete_int(d) == 1
  return cur().solver.check(d.z != 1) == z3.unsat


def _unit_view(t):
  shp = tuple(1 if (isinstance(d, sym.Sym) and sym.concrete_int(d) is None and _provably_one(d)) else d
              for d in t.shape)
  if all(a is b for a, b in zip(shp, t.shape)):
    return t
  return Tensor(shp, t.dtype, t._fn, _tags(t))


def _dim_same(a, b):
  r = _dim_eq(a, b)
  if r is not None:
    return r
  az, bz = sym._as_int_z(a), sym._as_int_z(b)
  if z3.simplify(az - bz).eq(z3.IntVal(0)):
    return True
  return sym.prove(SBool(az == bz))


def _reshape_groups(src, dst):
  """Greedy matching of src/dst dims into (src axes, dst axes) groups where one
  side is a single axis and the other a run whose product is syntactically it."""
  groups = []
  i = j = 0
  while i < len(src) or j < len(dst):
    if i < len(src) and _is_one(src[i]) and not (j < len(dst) and _is_one(dst[j])):
      groups.append(([i], []))
      i += 1
      continue
    if j < len(dst) and _is_one(dst[j]) and not (i < len(src) and _is_one(src[i])):
      groups.append(([], [j]))
      j += 1
      continue
    if i >= len(src) or j >= len(dst):
      return None
    if _dim_same(src[i], dst[j]):
      groups.append(([i], [j]))
      i += 1
      j += 1
      continue
    # try src[i] == prod(dst[j:j2]) or dst[j] == prod(src[i:i2])
    found = False
    for j2 in range(j + 2, len(dst) + 1):
      if _prod_eq(src[i], dst[j:j2]):
        groups.append(([i], list(range(j, j2))))
        i += 1
        j = j2
        found = True
        break
    if found:
      continue
    for i2 in range(i + 2, len(src) + 1):
      if _prod_eq(dst[j], src[i:i2]):
        groups.append((list(range(i, i2)), [j]))
        j += 1
        i = i2
        found = True
        break
    if not found:
      return None
  return groups


def _prod_eq(d, ds):
  p = _prod(ds)
  cd, cp = sym.concrete_int(d), sym.concrete_int(p)
  if cd is not None and cp is not None:
    return cd == cp
  if isinstance(d, sym.Sym) and isinstance(p, sym.Sym):
    if z3.simplify(d.z - p.z).eq(z3.IntVal(0)):
      return True
    # ask the solver under the path condition (shape facts)
    s = cur().solver
    return s.check(d.z != p.z) == z3.unsat
  if isinstance(d, sym.Sym) or isinstance(p, sym.Sym):
    s = cur().solver
    return s.check(sym._as_int_z(d) != sym._as_int_z(p)) == z3.unsat
  return False


def _reshape_grouped(t, shape, groups):
  cur().axioms_used.add("reshape: split / merge of adjacent axes is row-major (i -> (i div b, i mod b))")

  def fn(idx):
    src = [0] * t.ndim
    for sa, da in groups:
      if len(sa) == 1 and len(da) == 1:
        src[sa[0]] = idx[da[0]]
      elif len(sa) == 1 and len(da) > 1:
        flat = None
        for a in da:
          flat = idx[a] if flat is None else flat * shape[a] + idx[a]
        _radix_bound(flat, [idx[a] for a in da], [shape[a] for a in da])
        src[sa[0]] = flat
      elif len(da) == 1 and len(sa) > 1:
        rem = idx[da[0]]
        for a in reversed(sa[1:]):
          d = t.shape[a]
          src[a] = _mod_known(rem, d)
          rem = _div_known(rem, d)
        src[sa[0]] = rem
      # unit axes: index 0
    return t.at(tuple(src))

  return Tensor(tuple(shape), t.dtype, fn, _tags(t))


def _divmod_known(a, d):
  """(a div d, a mod d) for d > 0.  If a is syntactically x*d + y and the path
  condition proves 0 <= y < d the answer is (x, y) exactly (mixed-radix rewrite,
  side condition checked by the solver); otherwise fresh quotient/remainder."""
  if not (isinstance(a, sym.Sym) or isinstance(d, sym.Sym)):
    return a // d, a % d
  az, dz = sym._as_int_z(a), sym._as_int_z(d)
  c = cur()
  key = ("divmod", az.get_id(), dz.get_id())
  if key in c.ghost:
    return c.ghost[key]
  res = None
  sp = _split_affine(az, dz)
  if sp is not None:
    x, y = sp
    s = c.solver
    if s.check(z3.Not(z3.And(y >= 0, y < dz))) == z3.unsat:
      res = (SInt(x), SInt(y))
  if res is None:
    s = c.solver
    if s.check(z3.Not(z3.And(az >= 0, az < dz))) == z3.unsat:
      res = (0, a)
  if res is None:
    q, r = sym.floordiv_int(az, dz, check=False)
    res = (SInt(q), SInt(r))
  c.ghost[key] = res
  return res


_split_affine = sym.split_affine


def _div_known(a, d):
  return _divmod_known(a, d)[0]


def _mod_known(a, d):
  return _divmod_known(a, d)[1]


def concatenate(ts, axis=0):
  ts = [asarray(t) for t in ts]
  if not ts:
    c = cur()
    c.fail(f"concatenate-empty@{getattr(c, 'site', '')}", kind="shape")
    raise PathEnd()
  r = ts[0].ndim
  axis = _norm_axis(axis, r)
  for t in ts[1:]:
    if t.ndim != r:
      c = cur()
      c.fail(f"concatenate-rank@{getattr(c, 'site', '')}", kind="shape")
      raise PathEnd()
    for a in range(r):
      if a != axis:
        shape_compat(ts[0].shape[a], t.shape[a], "concatenate")
  offs = [0]
  for t in ts:
    offs.append(offs[-1] + t.shape[axis])
  shape = list(ts[0].shape)
  shape[axis] = offs[-1]
  dt = result_dtype(*[t.dtype for t in ts])

  def fn(idx):
    i = idx[axis]
    res = None
    for k in range(len(ts) - 1, -1, -1):
      sub = idx[:axis] + (i - offs[k] if not (isinstance(offs[k], int) and offs[k] == 0) else i,) + idx[axis + 1:]
      ci = sym.concrete_int(i)
      lo, hi = sym.concrete_int(offs[k]), sym.concrete_int(offs[k + 1])
      if ci is not None and lo is not None and hi is not None:
        if lo <= ci < hi:
          return _cast_s(ts[k].at(sub), dt)
        continue
      if res is None:
        res = _lazy(ts[k], sub, dt)
      else:
        res = _Lazy_ite(i < offs[k + 1], _lazy(ts[k], sub, dt), res)
    return _force(res)

  return Tensor(tuple(shape), dt, fn)


class _Lazy_ite:

  def __init__(self, c, a, b):
    self.c, self.a, self.b = c, a, b


def _lazy(t, idx, dt):
  return lambda: _cast_s(t.at(idx), dt)


def _force(x):
  if isinstance(x, _Lazy_ite):
    c = x.c
    if isinstance(c, bool):
      return _force(x.a if c else x.b)
    sc = z3.simplify(c.z)
    if z3.is_true(sc) or sym.prove(c):
      return _force(x.a)
    if z3.is_false(sc) or sym.prove(sym.snot(c)):
      return _force(x.b)
    return OPS.where(c, _force(x.a), _force(x.b))
  return x()


def stack(ts, axis=0):
  if hasattr(ts, "_pyvc_symlen"):
    if axis != 0:
      raise Unsupported("stack of a symbolic-length sequence along axis != 0")
    n = ts._pyvc_symlen()
    c = cur()
    k0 = SInt(c.fresh_int("k_stack"))
    c.oblige(f"stack-nonempty@{getattr(c, 'site', '')}", n > 0, kind="shape",
             detail="need at least one array to stack")
    c.assume(sym.sand(k0 >= 0, k0 < n))
    probe = asarray(ts._pyvc_at(k0))
    seq_ = ts
    return Tensor((n,) + probe.shape, probe.dtype,
                  lambda idx: asarray(seq_._pyvc_at(idx[0])).at(idx[1:]))
  ts = [asarray(t) for t in ts]
  if not ts:
    c = cur()
    c.fail(f"stack-empty@{getattr(c, 'site', '')}", kind="shape", detail="need at least one array to stack")
    raise PathEnd()
  return concatenate([expand_dims(t, axis) for t in ts], axis)


def split(t, indices_or_sections, axis=0):
  t = asarray(t)
  axis = _norm_axis(axis, t.ndim)
  d = t.shape[axis]
  ios = indices_or_sections
  if isinstance(ios, Tensor):
    n = sym.concretize(ios.shape[0])
    if n is None:
      raise Unsupported("split at a symbolic number of indices")
    ios = [ios.at((k,)) for k in range(n)]
  if isinstance(ios, (int, SInt)):
    k = sym.concrete_int(ios)
    if k is None:
      raise Unsupported("split into a symbolic number of sections")
    cd = sym.concrete_int(d)
    if cd is not None:
      if k == 0 or cd % k:
        c = cur()
        c.fail(f"split-divisible@{getattr(c, 'site', '')}", kind="shape")
        raise PathEnd()
      step = cd // k
    else:
      q = sym.floordiv_int(d.z, z3.IntVal(k), check=False)
      cur().oblige(f"split-divisible@{getattr(cur(), 'site', '')}", SBool(q[1] == 0), kind="shape")
      step = SInt(q[0])
    bounds = [step * i for i in range(k + 1)]
  else:
    bounds = [0] + list(ios) + [d]
  out = []
  for lo, hi in zip(bounds, bounds[1:]):
    sl = [slice(None)] * t.ndim
    sl[axis] = slice(lo, hi)
    out.append(getitem(t, tuple(sl)))
  return out


def pad(t, pad_width, mode="constant", constant_values=0):
  t = asarray(t)
  pw = list(pad_width)
  if pw and not isinstance(pw[0], (list, tuple)):
    pw = [tuple(pw)] * t.ndim
  if len(pw) != t.ndim:
    c = cur()
    c.fail(f"pad-rank@{getattr(c, 'site', '')}", kind="shape", detail=f"{pw} for rank {t.ndim}")
    raise PathEnd()
  shape = tuple(b + d + a for (b, a), d in zip(pw, t.shape))
  zero = _cast_s(constant_values, t.dtype)
  for (b, a) in pw:
    for x in (b, a):
      cx = sym.concrete_int(x)
      if cx is not None:
        if cx < 0:
          c = cur()
          c.fail(f"pad-negative@{getattr(c, 'site', '')}", kind="shape")
          raise PathEnd()
      else:
        cur().oblige(f"pad-nonnegative@{getattr(cur(), 'site', '')}", x >= 0, kind="shape")

  def fn(idx):
    conds = []
    src = []
    for i, (b, a), d in zip(idx, pw, t.shape):
      cb = sym.concrete_int(b)
      si = i - b if not (cb == 0) else i
      src.append(si)
      if not (cb == 0):
        conds.append(si >= 0)
      if not (sym.concrete_int(a) == 0):
        conds.append(si < d)
    if not conds:
      return t.at(tuple(src))
    c_all = sym.sand(*conds)
    sc = z3.simplify(c_all.z)
    if z3.is_true(sc):
      return t.at(tuple(src))
    if z3.is_false(sc):
      return zero
    return OPS.where(c_all, t.at(tuple(src)), zero)

  return Tensor(shape, t.dtype, fn)


def flip(t, axis=None):
  t = asarray(t)
  axes = list(range(t.ndim)) if axis is None else ([axis] if not isinstance(axis, (list, tuple)) else list(axis))
  axes = [_norm_axis(a, t.ndim) for a in axes]

  def fn(idx):
    return t.at(tuple((t.shape[a] - 1 - i) if a in axes else i for a, i in enumerate(idx)))

  return Tensor(t.shape, t.dtype, fn)


def roll(t, shift, axis=None):
  t = asarray(t)
  if axis is None:
    if t.ndim != 1:
      raise Unsupported("roll without axis on rank>1")
    axis = 0
  axis = _norm_axis(axis, t.ndim)
  d = t.shape[axis]
  if isinstance(shift, Tensor):
    shift = shift.item()

  def fn(idx):
    i = idx[axis]
    j = _mod_known(i - shift, d)
    return t.at(idx[:axis] + (j,) + idx[axis + 1:])

  return Tensor(t.shape, t.dtype, fn)


def diag(t, k=0):
  t = asarray(t)
  if k != 0:
    raise Unsupported("diag with offset")
  if t.ndim == 1:
    n = t.shape[0]
    zero = _cast_s(0, t.dtype)
    return Tensor((n, n), t.dtype, lambda idx: OPS.where(idx[0] == idx[1], t.at((idx[0],)), zero))
  if t.ndim == 2:
    n = sym.smin(t.shape[0], t.shape[1]) if _dim_eq(t.shape[0], t.shape[1]) is not True else t.shape[0]
    return Tensor((n,), t.dtype, lambda idx: t.at((idx[0], idx[0])))
  c = cur()
  c.fail(f"diag-rank@{getattr(c, 'site', '')}", kind="shape")
  raise PathEnd()


def repeat(t, repeats, axis=None):
  t = asarray(t)
  if t.ndim == 0 and axis is None:
    return Tensor((repeats,), t.dtype, lambda idx: t.at(()))
  raise Unsupported("repeat of non-scalar")


# ------------------------------------------------------------------ reductions
class Reduction:
  """r[k] = reduce_{j} x[k ∪ j]; uninterpreted symbol + facts on demand."""

  def __init__(self, kind, x, axes, keepdims):
    self.kind, self.x, self.axes, self.keepdims = kind, x, axes, keepdims
    c = cur()
    self.kept = [a for a in range(x.ndim) if a not in axes]
    fps = getattr(OPS, "fp_sort", None)
    sort = z3.BoolSort() if kind in ("all", "any") else (
        z3.IntSort() if x.dtype.kind in ("i", "b") and kind in ("max", "min", "sum", "prod", "count") else
        (fps if fps is not None else z3.RealSort()))
    self.sort = sort
    self.fp = fps is not None and sort == fps
    self.f = z3.Function(c.fresh_name(f"red_{kind}"), *([z3.IntSort()] * len(self.kept)), sort)
    self.wit = {}
    c.reductions.append(self)

  def value(self, kidx):
    c = cur()
    kz = [sym._as_int_z(i) for i in kidx]
    term = self.f(*kz) if kz else self.f()
    key = _key(kidx)
    if key not in self.wit:
      self.wit[key] = None
      self._facts(kidx, term)
    if self.sort == z3.BoolSort():
      return SBool(term)
    if self.fp:
      return OPS.wrap(term)
    if self.sort == z3.RealSort() and hasattr(OPS, "wrap_real"):
      return OPS.wrap_real(term)
    return SInt(term) if self.sort == z3.IntSort() else SReal(term)

  def full_index(self, kidx, jidx):
    idx = [None] * self.x.ndim
    for a, i in zip(self.kept, kidx):
      idx[a] = i
    for a, j in zip(self.axes, jidx):
      idx[a] = j
    return tuple(idx)

  def _in_range(self, jidx):
    conds = []
    for a, j in zip(self.axes, jidx):
      conds.append(sym.sand(j >= 0, j < self.x.shape[a]))
    return sym.sand(*conds)

  def _nonempty(self):
    return sym.sand(*[self.x.shape[a] > 0 for a in self.axes])

  def _facts(self, kidx, term):
    c = cur()
    kind = self.kind
    res = SBool(term) if self.sort == z3.BoolSort() else (SInt(term) if self.sort == z3.IntSort() else SReal(term))
    if self.fp:
      res = OPS.wrap(term)
    elif self.sort == z3.RealSort() and hasattr(OPS, "wrap_real"):
      res = OPS.wrap_real(term)
    cands = self._candidates()
    if kind in ("max", "min"):
      eq = (lambda a, b: a.same_bits(b)) if self.fp else (lambda a, b: a == b)
      # witness
      w = tuple(SInt(c.fresh_int("w")) for _ in self.axes)
      c.index_terms.extend(w)
      self.wit[_key(kidx)] = w
      xw = self.x.at(self.full_index(kidx, w))
      c.fact(sym.implies(self._nonempty(), sym.sand(self._in_range(w), eq(res, xw))),
             f"{kind}: attained at a witness index")
      # the new witness index is a point like any other: earlier max/min reductions over the same number of axes get their
      # bound fact at it (otherwise a later reduction's witness may sit where an earlier one was never constrained)
      if not hasattr(self, "inst"):
        self.inst = {}
      self.inst[_key(kidx)] = (kidx, res)
      for other in c.reductions:
        if other is self or other.kind not in ("max", "min") or len(other.axes) != len(self.axes):
          continue
        for okidx, ores in getattr(other, "inst", {}).values():
          try:
            xo = other.x.at(other.full_index(okidx, w))
          except Exception:  # pylint: disable=broad-except
            continue
          c.fact(sym.implies(other._in_range(w), (ores >= xo) if other.kind == "max" else (ores <= xo)),
                 f"{other.kind}: bound at every index")
      for j in cands:
        xj = self.x.at(self.full_index(kidx, j))
        c.fact(sym.implies(self._in_range(j), (res >= xj) if kind == "max" else (res <= xj)),
               f"{kind}: bound at every index")
    elif kind in ("all", "any"):
      w = tuple(SInt(c.fresh_int("w")) for _ in self.axes)
      c.index_terms.extend(w)
      xw = OPS.truth(self.x.at(self.full_index(kidx, w)))
      if kind == "all":
        c.fact(sym.sor(res, sym.sand(self._in_range(w), sym.snot(xw))), "all: false has a witness")
        for j in cands:
          xj = OPS.truth(self.x.at(self.full_index(kidx, j)))
          c.fact(sym.implies(sym.sand(res, self._in_range(j)), xj), "all: true implies every element")
      else:
        c.fact(sym.sor(sym.snot(res), sym.sand(self._in_range(w), xw)), "any: true has a witness")
        for j in cands:
          xj = OPS.truth(self.x.at(self.full_index(kidx, j)))
          c.fact(sym.implies(sym.sand(self._in_range(j), xj), res), "any: an element implies true")
    elif kind in ("sum", "norm", "sumsq", "abssum"):
      # sum of provably-zero terms is zero; sums of non-negative terms are non-negative
      j = tuple(SInt(c.fresh_int("j")) for _ in self.axes)
      xj = self.x.at(self.full_index(kidx, j))
      s = z3.Solver()
      s.set("timeout", _ctx.FEAS_TIMEOUT_MS)
      for p in c.pc:
        s.add(p)
      s.add(self._in_range(j).z)
      xz = sym._as_real_z(xj) if not isinstance(xj, (bool, SBool)) else sym._as_real_z(OPS.cast(xj, bool_, float32))
      if s.check(xz != 0) == z3.unsat:
        c.fact(res == 0, f"{kind}: a sum of zero terms is zero")
      elif kind in ("norm", "sumsq", "abssum"):
        c.fact(res >= 0, f"{kind}: non-negative")
      else:
        if s.check(xz < 0) == z3.unsat:
          c.fact(res >= 0, "sum: non-negative terms give a non-negative sum")
      if kind == "norm":
        for jj in cands:
          xjj = self.x.at(self.full_index(kidx, jj))
          c.fact(sym.implies(self._in_range(jj), sym.sand(res >= xjj, res >= -xjj)),
                 "norm: |x_i| <= ||x||")
          c.fact(sym.implies(sym.sand(self._in_range(jj), res == 0), xjj == 0), "norm: ||x|| = 0 => x = 0")
    elif kind == "mean":
      pass
    elif kind == "prod":
      pass

  def _candidates(self):
    c = cur()
    out = []
    r = self.x.ndim
    for pt in c.index_points:
      if len(pt) == r:
        out.append(tuple(pt[a] for a in self.axes))
    terms = list(c.index_terms)
    m = len(self.axes)
    if terms:
      if len(terms)**m > 64:
        terms = terms[-4:] if m <= 2 else []
      out.extend(itertools.product(terms, repeat=m))
    return out


def _reduce(kind, x, axis, keepdims=False):
  note_use(x)
  x = asarray(x)
  if axis is None:
    axes = list(range(x.ndim))
  elif isinstance(axis, (list, tuple)):
    axes = [_norm_axis(a, x.ndim) for a in axis]
  else:
    axes = [_norm_axis(axis, x.ndim)]
  # concrete small reductions are expanded exactly
  dims = [sym.concrete_int(x.shape[a]) for a in axes]
  if kind == "norm" :
    dt = x.dtype if x.dtype.kind == "f" else float32
  elif kind in ("all", "any"):
    dt = bool_
  elif kind == "mean":
    dt = x.dtype if x.dtype.kind == "f" else float32
  else:
    dt = x.dtype if x.dtype.kind != "b" else int32
  kept = [a for a in range(x.ndim) if a not in axes]
  if keepdims:
    shape = tuple(1 if a in axes else d for a, d in enumerate(x.shape))
  else:
    shape = tuple(x.shape[a] for a in kept)
  if all(d is not None for d in dims) and _prod(dims) <= 16 and kind in ("max", "min", "sum", "all", "any", "prod", "mean"):
    def fn_exact(idx):
      kidx = [i for a, i in zip(range(x.ndim), idx) if a not in axes] if keepdims else list(idx)
      vals = []
      for j in itertools.product(*[range(d) for d in dims]):
        full = [None] * x.ndim
        for a, i in zip(kept, kidx):
          full[a] = i
        for a, jj in zip(axes, j):
          full[a] = jj
        vals.append(x.at(tuple(full)))
      if not vals:
        if kind in ("sum",):
          return _cast_s(0, dt)
        if kind == "all":
          return True
        if kind == "any":
          return False
        if kind == "prod":
          return _cast_s(1, dt)
        raise Unsupported("reduction of empty tensor")
      if kind == "sum" or kind == "mean":
        r = vals[0] if not isinstance(vals[0], (bool, SBool)) else OPS.cast(vals[0], bool_, int32)
        for v in vals[1:]:
          r = r + (v if not isinstance(v, (bool, SBool)) else OPS.cast(v, bool_, int32))
        return r / len(vals) if kind == "mean" else r
      if kind == "prod":
        r = vals[0]
        for v in vals[1:]:
          r = r * v
        return r
      if kind == "max":
        r = vals[0]
        for v in vals[1:]:
          r = OPS.maximum(r, v)
        return r
      if kind == "min":
        r = vals[0]
        for v in vals[1:]:
          r = OPS.minimum(r, v)
        return r
      if kind == "all":
        return sym.sand(*[OPS.truth(v) for v in vals]) if any(isinstance(v, sym.Sym) for v in vals) else all(vals)
      if kind == "any":
        return sym.sor(*[OPS.truth(v) for v in vals]) if any(isinstance(v, sym.Sym) for v in vals) else any(vals)
    return Tensor(shape, dt, fn_exact)
  if kind in ("all", "any"):
    probe = x.at(tuple(SInt(cur().fresh_int("j_probe")) for _ in x.shape))
    if isinstance(probe, bool):
      # a constant predicate (e.g. isfinite in real mode): non-empty reduction of a constant
      return Tensor(shape, bool_, lambda idx, v=probe: v)
  rkey = ("reduction", kind, id(x), tuple(axes))
  red = cur().ghost.get(rkey)
  if red is None:
    red = Reduction(kind, x, axes, keepdims)
    cur().ghost[rkey] = red
    cur().ghost[("keepalive", id(x))] = x
  cur().ghost.setdefault("reduce_calls", []).append(red)

  def fn(idx):
    kidx = [i for a, i in enumerate(idx) if a not in axes] if keepdims else list(idx)
    return red.value(tuple(kidx))

  t = Tensor(shape, dt, fn)
  t.tags["reduction"] = red
  return t


def _no_kw(fn, kw, allowed=()):
  """Library contracts model the arguments they name; anything else must not be silently ignored."""
  bad = [k for k, v in kw.items() if k not in allowed and v is not None]
  if bad:
    raise Unsupported(f"{fn}: keyword argument(s) {bad} are not modelled")


def _masked(kind, x, kw):
  """where= / initial= of the NumPy reductions: masked-out entries contribute `initial` (the identity)."""
  where_, initial = kw.get("where"), kw.get("initial")
  x = asarray(x)
  if where_ is None and initial is None:
    return x, None
  if where_ is not None:
    if initial is None:
      if kind == "sum":
        initial = 0
      elif kind == "prod":
        initial = 1
      else:
        raise ValueError(f"reduction operation {kind} does not have an identity, so to use a where mask one has to specify 'initial'")
    x = where(where_, x, initial)
  return x, initial


def rmax(x, axis=None, keepdims=False, **kw):
  _no_kw("max", kw, ("where", "initial"))
  x, init = _masked("max", x, kw)
  r = _reduce("max", x, axis, keepdims)
  return r if init is None else ew(lambda v: OPS.maximum(v, init), r)


def rmin(x, axis=None, keepdims=False, **kw):
  _no_kw("min", kw, ("where", "initial"))
  x, init = _masked("min", x, kw)
  r = _reduce("min", x, axis, keepdims)
  return r if init is None else ew(lambda v: OPS.minimum(v, init), r)


def rsum(x, axis=None, keepdims=False, **kw):
  _no_kw("sum", kw, ("where", "initial", "dtype"))
  x, init = _masked("sum", x, kw)
  if kw.get("dtype") is not None:
    x = asarray(x).astype(kw["dtype"])
  r = _reduce("sum", x, axis, keepdims)
  return r if init is None or (isinstance(init, (int, float)) and init == 0) else r + init


def rmean(x, axis=None, keepdims=False, **kw):
  _no_kw("mean", kw)
  x = asarray(x)
  axes = list(range(x.ndim)) if axis is None else ([axis] if not isinstance(axis, (list, tuple)) else list(axis))
  axes = [_norm_axis(a, x.ndim) for a in axes]
  n = _prod([x.shape[a] for a in axes])
  s = _reduce("sum", x.astype(float32) if x.dtype.kind != "f" else x, axes, keepdims)
  return s / n


def rprod(x, axis=None, keepdims=False, **kw):
  _no_kw("prod", kw)
  return _reduce("prod", x, axis, keepdims)


def rall(x, axis=None, **kw):
  _no_kw("all", kw)
  return _reduce("all", x, axis)


def rany(x, axis=None, **kw):
  _no_kw("any", kw)
  return _reduce("any", x, axis)


def norm(x, ord=None, axis=None, keepdims=False):  # pylint: disable=redefined-builtin
  x = asarray(x)
  if ord in (None, 2, "fro") :
    if ord == 2 and axis is None and x.ndim == 2:
      raise Unsupported("spectral norm")
    return _reduce("norm", x, axis, keepdims)
  if ord == 1:
    return _reduce("abssum", x, axis, keepdims)
  raise Unsupported(f"norm ord={ord}")


# ------------------------------------------------------------------ contractions
class Contraction:
  """Uninterpreted multilinear contraction with the zero-term rule."""

  def __init__(self, name, operands, out_shape, term_fn, contracted_dims):
    c = cur()
    self.operands = operands
    self.term_fn = term_fn  # (out_idx, k_idx) -> product term scalar
    self.contracted = contracted_dims
    self.f = z3.Function(c.fresh_name(name), *([z3.IntSort()] * len(out_shape)), z3.RealSort())
    self.seen = set()
    c.ghost.setdefault("contractions", []).append(self)

  def value(self, idx):
    c = cur()
    iz = [sym._as_int_z(i) for i in idx]
    term = self.f(*iz) if iz else self.f()
    key = _key(idx)
    if key not in self.seen:
      self.seen.add(key)
      # "a non-zero sum has a non-zero term": Skolemised witness form of (forall k. term(k) = 0) => sum = 0
      ks = tuple(SInt(c.fresh_int("kc")) for _ in self.contracted)
      inr = sym.sand(*[sym.sand(k >= 0, k < d) for k, d in zip(ks, self.contracted)])
      tv = self.term_fn(idx, ks)
      tz = sym._as_real_z(tv)
      c.fact(z3.Or(term == 0, z3.And(inr.z, tz != 0)), "contraction: a non-zero sum has a non-zero term (witness index)", lazy=True)
    return SReal(term)


def tensordot(a, b, axes=2, precision=None):
  note_use(a)
  note_use(b)
  a, b = asarray(a), asarray(b)
  if isinstance(axes, int):
    ax_a = list(range(a.ndim - axes, a.ndim))
    ax_b = list(range(axes))
  else:
    ax_a, ax_b = axes
    if not isinstance(ax_a, (list, tuple)):
      ax_a = [ax_a]
    if not isinstance(ax_b, (list, tuple)):
      ax_b = [ax_b]
    ax_a = [_norm_axis(x, a.ndim) for x in ax_a]
    ax_b = [_norm_axis(x, b.ndim) for x in ax_b]
  if len(ax_a) != len(ax_b):
    c = cur()
    c.fail(f"tensordot-axes@{getattr(c, 'site', '')}", kind="shape")
    raise PathEnd()
  for x, y in zip(ax_a, ax_b):
    shape_compat(a.shape[x], b.shape[y], "tensordot")
  free_a = [i for i in range(a.ndim) if i not in ax_a]
  free_b = [i for i in range(b.ndim) if i not in ax_b]
  out_shape = tuple(a.shape[i] for i in free_a) + tuple(b.shape[i] for i in free_b)
  cdims = [a.shape[x] for x in ax_a]
  dt = result_dtype(a.dtype, b.dtype)

  def term(idx, ks):
    ia = [None] * a.ndim
    ib = [None] * b.ndim
    for p, i in zip(free_a, idx[:len(free_a)]):
      ia[p] = i
    for p, i in zip(free_b, idx[len(free_a):]):
      ib[p] = i
    for x, y, k in zip(ax_a, ax_b, ks):
      ia[x] = k
      ib[y] = k
    return _mul(a.at(tuple(ia)), b.at(tuple(ib)))

  # exact expansion for tiny contracted extents
  cd = [sym.concrete_int(d) for d in cdims]
  if all(d is not None for d in cd) and _prod(cd) <= 4:
    def fn_exact(idx):
      r = 0.0
      for ks in itertools.product(*[range(d) for d in cd]):
        r = r + term(idx, ks)
      return r
    te = Tensor(out_shape, dt, fn_exact)
    te.tags["tensordot"] = (a, b, ax_a, ax_b)
    cur().ghost.setdefault("tensordots", []).append(te)
    return te
  con = Contraction("dot", (a, b), out_shape, term, cdims)
  t = Tensor(out_shape, dt, lambda idx: con.value(idx))
  t.tags["contraction"] = con
  t.tags["tensordot"] = (a, b, ax_a, ax_b)
  cur().ghost.setdefault("tensordots", []).append(t)
  return t


def matmul(a, b, precision=None):
  note_use(a)
  note_use(b)
  a, b = asarray(a), asarray(b)
  if a.ndim == 2 and b.ndim == 2:
    return tensordot(a, b, axes=([1], [0]))
  if a.ndim == 2 and b.ndim == 1:
    return tensordot(a, b, axes=([1], [0]))
  if a.ndim == 1 and b.ndim == 2:
    return tensordot(a, b, axes=([0], [0]))
  if a.ndim == 1 and b.ndim == 1:
    return tensordot(a, b, axes=([0], [0]))
  raise Unsupported("batched matmul")


def einsum(formula, *ops, precision=None):
  for o_ in ops:
    note_use(o_)
  formula = formula.replace(" ", "")
  ins, out = formula.split("->")
  ins = ins.split(",")
  ops = [asarray(o) for o in ops]
  if len(ins) != len(ops):
    c = cur()
    c.fail(f"einsum-arity@{getattr(c, 'site', '')}", kind="shape")
    raise PathEnd()
  dims = {}
  for spec, o in zip(ins, ops):
    if len(spec) != o.ndim:
      c = cur()
      c.fail(f"einsum-rank@{getattr(c, 'site', '')}", kind="shape", detail=f"{spec} vs rank {o.ndim}")
      raise PathEnd()
    for ch, d in zip(spec, o.shape):
      if ch in dims:
        shape_compat(dims[ch], d, "einsum")
      else:
        dims[ch] = d
  contracted = [ch for ch in dims if ch not in out]
  out_shape = tuple(dims[ch] for ch in out)
  dt = result_dtype(*[o.dtype for o in ops])

  def term(idx, ks):
    env = dict(zip(out, idx))
    env.update(dict(zip(contracted, ks)))
    r = None
    for spec, o in zip(ins, ops):
      v = o.at(tuple(env[ch] for ch in spec))
      r = v if r is None else _mul(r, v)
    return r

  if not contracted:
    return Tensor(out_shape, dt, lambda idx: term(idx, ()))
  cd = [sym.concrete_int(dims[ch]) for ch in contracted]
  if all(d is not None for d in cd) and _prod(cd) <= 8:
    def fn_exact(idx):
      r = 0.0
      for ks in itertools.product(*[range(d) for d in cd]):
        r = r + term(idx, ks)
      return r
    te = Tensor(out_shape, dt, fn_exact)
    te.tags["einsum"] = (formula, ops)
    return te
  con = Contraction("einsum", ops, out_shape, term, [dims[ch] for ch in contracted])
  t = Tensor(out_shape, dt, lambda idx: con.value(idx))
  t.tags["contraction"] = con
  t.tags["einsum"] = (formula, ops)
  return t


def trace(t):
  t = asarray(t)
  d = diag(t)
  return rsum(d)


# ------------------------------------------------------------------ opaque
def opaque(name, shape, dtype=float32, sort="real"):
  """A fresh uninterpreted tensor."""
  c = cur()
  nm = c.fresh_name(name)
  zs = z3.RealSort() if sort == "real" else (z3.IntSort() if sort == "int" else z3.BoolSort())
  f = z3.Function(nm, *([z3.IntSort()] * len(shape)), zs)
  wrap = SReal if sort == "real" else (SInt if sort == "int" else SBool)

  def fn(idx):
    iz = [sym._as_int_z(i) for i in idx]
    return wrap(f(*iz) if iz else f())

  t = Tensor(tuple(shape), dtype, fn)
  t.tags["opaque"] = nm
  t.tags["f"] = f
  return t
