"""Conservative syntactic frame checker (DESIGN 7/C14 P1-P3): one obligation per function.

A function satisfies its frame obligation when it
  * has no `global` / `nonlocal` statement;
  * stores (attribute / subscript assignment, augmented assignment, del, mutating method call) only into
    objects rooted at a LOCAL name, or at a parameter listed in the sidecar `assigns` clause;
  * reads no process-global mutable state: np.random.* / random.* module functions, time.*, datetime,
    os.environ, uuid, id(), hash() — a freshly constructed np.random.RandomState(<literal>) is allowed.
Module level: every module global is assigned at most once and never from inside a function.
"""
from __future__ import annotations

import ast
import hashlib

MUTATORS = {"append", "extend", "update", "setdefault", "pop", "sort", "insert", "remove", "clear",
            "popitem", "add", "discard", "reverse", "fill", "itemset", "put", "resize", "setflags", "__setitem__"}
GLOBAL_STATE_CALLS = {("time", None), ("datetime", None), ("uuid", None), ("random", None)}


def _root(node):
  while isinstance(node, (ast.Attribute, ast.Subscript, ast.Starred)):
    node = node.value
  if isinstance(node, ast.Call):
    return _root(node.func) if isinstance(node.func, ast.Attribute) else None
  return node.id if isinstance(node, ast.Name) else None


def _walk_own(fn):
  stack = list(ast.iter_child_nodes(fn))
  while stack:
    n = stack.pop()
    yield n
    if isinstance(n, (ast.FunctionDef, ast.AsyncFunctionDef, ast.Lambda, ast.ClassDef)):
      continue
    stack.extend(ast.iter_child_nodes(n))


def _locals(fn):
  names = set()
  a = fn.args
  params = [p.arg for p in a.posonlyargs + a.args + a.kwonlyargs]
  if a.vararg:
    params.append(a.vararg.arg)
  if a.kwarg:
    params.append(a.kwarg.arg)
  for n in _walk_own(fn):
    if isinstance(n, ast.Name) and isinstance(n.ctx, (ast.Store, ast.Del)):
      names.add(n.id)
    elif isinstance(n, (ast.FunctionDef, ast.ClassDef)):
      names.add(n.name)
    elif isinstance(n, ast.comprehension):
      for x in ast.walk(n.target):
        if isinstance(x, ast.Name):
          names.add(x.id)
    elif isinstance(n, (ast.Import, ast.ImportFrom)):
      for al in n.names:
        names.add((al.asname or al.name).split(".")[0])
  # names bound inside comprehensions / lambdas nested in expressions of this function
  for n in _walk_own(fn):
    if isinstance(n, ast.Lambda):
      for p in n.args.args:
        pass
  return set(params), names - set(params)


def check_function(fn, qual, assigns):
  """Returns list of (kind, lineno, text) frame violations of one function node."""
  out = []
  params, local = _locals(fn)
  allowed_params = set(assigns.get(qual, ()))
  body_nodes = list(_walk_own(fn))
  # lambda parameters and comprehension variables used inside nested lambdas are local to them
  lambda_params = set()
  for n in body_nodes:
    if isinstance(n, ast.Lambda):
      for p in n.args.args + n.args.kwonlyargs:
        lambda_params.add(p.arg)

  def classify(root, node, what):
    if root is None:
      return
    if root in local or root in lambda_params:
      return
    if root in params:
      if root in allowed_params or (root == "self" and fn.name == "__init__"):
        return
      out.append(("store-into-parameter-not-in-assigns-clause", node.lineno, f"{what}: {ast.unparse(node)[:90]}"))
      return
    out.append(("store-into-global-or-closure-object", node.lineno, f"{what}: {ast.unparse(node)[:90]}"))

  for n in body_nodes:
    if isinstance(n, (ast.Global, ast.Nonlocal)):
      out.append(("global/nonlocal", n.lineno, ast.unparse(n)))
    elif isinstance(n, ast.Assign):
      for t in n.targets:
        for tt in (t.elts if isinstance(t, (ast.Tuple, ast.List)) else [t]):
          if isinstance(tt, (ast.Attribute, ast.Subscript)):
            classify(_root(tt), n, "assignment")
    elif isinstance(n, ast.AugAssign):
      if isinstance(n.target, (ast.Attribute, ast.Subscript)):
        classify(_root(n.target), n, "augmented assignment")
      elif isinstance(n.target, ast.Name) and n.target.id not in local and n.target.id not in params:
        out.append(("store-into-global-or-closure-object", n.lineno, ast.unparse(n)[:90]))
    elif isinstance(n, ast.Delete):
      for t in n.targets:
        if isinstance(t, (ast.Attribute, ast.Subscript)):
          classify(_root(t), n, "del")
    elif isinstance(n, ast.Call):
      f = n.func
      if isinstance(f, ast.Attribute) and f.attr in MUTATORS and not (f.attr == "update" and len(n.args) >= 2):
        r = _root(f.value)
        # a call on a fresh expression (call result / literal) has no named root
        if r is not None and not isinstance(f.value, ast.Call):
          classify(r, n, f"mutating call .{f.attr}()")
      txt = ast.unparse(f)
      if txt in ("id", "hash") and "id" not in local and "hash" not in local:
        out.append(("process-global-state", n.lineno, ast.unparse(n)[:90]))
      head = txt.split(".")[0]
      if head in ("time", "datetime", "uuid", "random") and head not in local and head not in params:
        out.append(("process-global-state", n.lineno, ast.unparse(n)[:90]))
      if txt.startswith("np.random.") or txt.startswith("numpy.random.") or txt.startswith("jnp.random"):
        # a freshly constructed RandomState(<literal>) (and method calls on it) is deterministic local state
        ok = False
        for sub in ast.walk(n):
          if isinstance(sub, ast.Call) and ast.unparse(sub.func) in ("np.random.RandomState", "numpy.random.RandomState") \
              and len(sub.args) == 1 and isinstance(sub.args[0], ast.Constant):
            ok = True
        if not ok:
          out.append(("process-global-state", n.lineno, ast.unparse(n)[:90]))
    elif isinstance(n, ast.Attribute) and ast.unparse(n) == "os.environ":
      out.append(("process-global-state", n.lineno, "os.environ"))
  return out


def functions_of(tree):
  out = []

  def visit(node, prefix):
    for ch in ast.iter_child_nodes(node):
      if isinstance(ch, (ast.FunctionDef, ast.AsyncFunctionDef)):
        q = prefix + ch.name
        out.append((q, ch))
        visit(ch, q + ".<locals>.")
      elif isinstance(ch, ast.ClassDef):
        visit(ch, prefix + ch.name + ".")
      else:
        visit(ch, prefix)

  visit(tree, "")
  return out


STATEFUL_CONSTRUCTORS = {"RandomState", "default_rng", "Random", "SystemRandom", "Generator", "SeedSequence", "count", "cycle",
                         "iter", "deque", "open", "Lock", "Queue"}


def module_stateful_globals(tree):
  """Module-level names bound to an object that carries hidden mutable state of its own (a random generator seeded at
  import, an iterator, a queue ...): every use from inside a function makes the result depend on the call history of
  the PROCESS, i.e. on state that lives outside the optimizer state pytree."""
  out = {}
  for st in tree.body:
    if isinstance(st, (ast.Assign, ast.AnnAssign)) and st.value is not None:
      for sub in ast.walk(st.value):
        if isinstance(sub, ast.Call):
          nm = ast.unparse(sub.func).split(".")[-1]
          if nm in STATEFUL_CONSTRUCTORS:
            targets = st.targets if isinstance(st, ast.Assign) else [st.target]
            for t in targets:
              for x in ast.walk(t):
                if isinstance(x, ast.Name):
                  out[x.id] = (st.lineno, ast.unparse(sub)[:60])
  return out


def check_module(text, modname, assigns):
  """Returns (records, module_level_violations). One record per function."""
  tree = ast.parse(text)
  lines = text.splitlines(keepends=True)
  recs = []
  stateful = module_stateful_globals(tree)
  for q, fn in functions_of(tree):
    src = "".join(lines[fn.lineno - 1:fn.end_lineno])
    v = check_function(fn, q, assigns)
    if stateful:
      loc = _locals(fn)
      a = fn.args
      params = {p_.arg for p_ in a.posonlyargs + a.args + a.kwonlyargs}
      for n in _walk_own(fn):
        if isinstance(n, ast.Name) and isinstance(n.ctx, ast.Load) and n.id in stateful and n.id not in loc and n.id not in params:
          v.append(("process-global-state", n.lineno,
                    f"use of module-level stateful object {n.id} = {stateful[n.id][1]} (line {stateful[n.id][0]})"))
    recs.append({"function": f"{modname}:{q}", "sha": hashlib.sha256(src.encode()).hexdigest(),
                 "violations": v})
  # module globals assigned once
  seen = {}
  modv = []
  for st in tree.body:
    if isinstance(st, (ast.Assign, ast.AnnAssign, ast.AugAssign)):
      targets = st.targets if isinstance(st, ast.Assign) else [st.target]
      for t in targets:
        for x in ast.walk(t):
          if isinstance(x, ast.Name) and isinstance(x.ctx, ast.Store):
            if x.id in seen:
              modv.append(("module-global-assigned-twice", st.lineno, x.id))
            seen[x.id] = st.lineno
  return recs, modv
