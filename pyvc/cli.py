"""./verify <ID> --tier quick|thorough"""
import argparse
import importlib
import os
import sys


def main():
  ap = argparse.ArgumentParser()
  ap.add_argument("pid")
  ap.add_argument("--tier", default=os.environ.get("VERIF_TIER", "quick"))
  ap.add_argument("rest", nargs="*")
  a = ap.parse_args()
  if a.pid == "replay":
    from . import replaycmd
    sys.exit(replaycmd.main(a.rest))
  mod = importlib.import_module("contracts." + a.pid.lower())
  try:
    code = mod.main(a.tier)
  except Exception as e:  # pylint: disable=broad-except
    import traceback
    traceback.print_exc()
    print(f"ENGINE-ERROR property={a.pid}: {e!r}")
    code = 3
  sys.exit(code)


if __name__ == "__main__":
  main()
