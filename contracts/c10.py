"""C10 — low-rank packed preconditioner.

P1  unpack(pack(V, e, ie, c, t, z)) = (V, e, ie, c, t, z) pointwise for symbolic d, r with
    r >= 1, r + 2 < d; the pack/unpack assertions hold exactly under that precondition;
    _precond_dim(r,d) != d  <=>  _should_compress(r,d); both signs of r.
S2  Preconditioner._precondition_block (compressed branch) applies, along each axis in turn,
    c*(roll(g) - (g.V).V^T) + ((g.V)*e).V^T  — checked structurally (which tensors are
    contracted over which axes) for rank 1..3, and `has_zeros` leaves g unchanged.
S3  _low_rank_root keeps the |r| leading entries after flip (r>0) / roll (r<0): index arithmetic.
"""
from __future__ import annotations

import z3

from pyvc import ctx as C
from pyvc import harness as H
from pyvc import spec
from pyvc import sym
from pyvc import tensor as T
from pyvc.harness import Task
from pyvc.sym import SBool, SInt, SReal

PID = "C10"
DS = "precondition.distributed_shampoo"

NOT_COVERED = [
    "that the packed root equals the exact inverse p-th root numerically (eigh accuracy, spectral gap)",
    "dense-matrix equivalence of the compressed application as a numerical statement: proved as the algebraic identity "
    "c*(g - (gV)V^T) + ((gV)e)V^T under the contraction axioms at axis-provenance level only",
]


def sk(ctx, name, hi):
  i = spec.fresh_int(name)
  ctx.assume(sym.sand(i >= 0, i < hi))
  return i


def mk_pack(sign):

  def t(ctx, it):
    m = it.load_module(DS)
    d = spec.fresh_int("d")
    r = spec.fresh_int("r", lo=1)
    ctx.assume(r + 2 < d)
    rank = r if sign > 0 else -r
    V = T.opaque("V", (d, r))
    e = T.opaque("e", (r,))
    ie = T.opaque("ie", (r,))
    c = spec.fresh_real("const")
    tl = spec.fresh_real("tail")
    z = spec.fresh_bool("has_zeros")
    packed = m._fd_low_rank_pack(V, e, ie, c, tl, z, rank)
    ctx.oblige("_fd_low_rank_pack.post.shape=(d,r+2)",
               len(packed.shape) == 2 and sym.sand(packed.shape[0] == d, packed.shape[1] == r + 2))
    V2, e2, ie2, c2, t2, z2 = m._fd_low_rank_unpack(packed, rank)
    i = sk(ctx, "i", d)
    j = sk(ctx, "j", r)
    ctx.oblige("unpack(pack).eigvecs", sym.sand(V2.shape[0] == d, V2.shape[1] == r, V2.at((i, j)) == V.at((i, j))))
    ctx.oblige("unpack(pack).eigvals", sym.sand(e2.shape[0] == r, e2.at((j,)) == e.at((j,))))
    ctx.oblige("unpack(pack).inverted_eigvals", sym.sand(ie2.shape[0] == r, ie2.at((j,)) == ie.at((j,))))
    ctx.oblige("unpack(pack).const", c2.item() == c)
    ctx.oblige("unpack(pack).tail", t2.item() == tl)
    ctx.oblige("unpack(pack).has_zeros", T.OPS.truth(z2.item()) == z)
    # the two-function wrappers used by the non-FD low-rank path
    p2 = m._low_rank_pack(V, ie, c, rank)
    V3, ie3, c3, z3_ = m._low_rank_unpack(p2, rank)
    ctx.oblige("low_rank_unpack(low_rank_pack).eigvecs", V3.at((i, j)) == V.at((i, j)))
    ctx.oblige("low_rank_unpack(low_rank_pack).inverted_eigvals", ie3.at((j,)) == ie.at((j,)))
    ctx.oblige("low_rank_unpack(low_rank_pack).const", c3.item() == c)
    ctx.oblige("low_rank_unpack(low_rank_pack).has_zeros=False", sym.snot(T.OPS.truth(z3_.item())))

  return t


def t_dims(ctx, it):
  m = it.load_module(DS)
  d = spec.fresh_int("d", lo=1)
  r = spec.fresh_int("r")
  pd = m._precond_dim(r, d)
  sc = m._should_compress(r, d)
  scz = sc if isinstance(sc, (bool, SBool)) else T.OPS.truth(sc)
  ctx.oblige("_precond_dim!=d <=> _should_compress", (pd != d) == scz)
  ar = sym.ite(r >= 0, r, -r)
  ctx.oblige("_precond_dim.post.value", pd == sym.ite(sym.sand(r != 0, ar + 2 < d), ar + 2, d))
  ctx.oblige("_precond_dim.post.never-larger-than-d", pd <= d)


def t_pack_rejects(ctx, it):
  """Outside the precondition the pack asserts must fire (they are the guard, not dead code)."""
  m = it.load_module(DS)
  d = spec.fresh_int("d", lo=1)
  r = spec.fresh_int("r", lo=1)
  ctx.assume(r + 2 >= d)
  V = T.opaque("V", (d, r))
  e = T.opaque("e", (r,))
  n0 = len(ctx.obligations)
  try:
    m._fd_low_rank_pack(V, e, e, 0.0, 0.0, False, r)
  except C.PathEnd:
    pass
  fired = any(o.status == "sat" and o.kind == "assert" for o in ctx.obligations[n0:])
  # turn the expected failures into a positive obligation
  ctx.obligations[n0:] = []
  ctx.oblige("_fd_low_rank_pack.asserts-reject-r+2>=d (vacuity guard: the precondition is not contradictory and the asserts are live)",
             fired)


# ---------------------------------------------------------------- S3 _low_rank_root selection
def mk_low_rank_root(sign, padded):

  def t(ctx, it):
    m = it.load_module(DS)
    d = spec.fresh_int("d")
    r = spec.fresh_int("r", lo=1)
    ctx.assume(r + 2 < d)
    ps = spec.fresh_int("padding_start") if padded else None
    if padded:
      ctx.assume(sym.sand(ps >= r + 1, ps <= d))
    A = T.opaque("A", (d, d))
    p = spec.fresh_int("p", lo=1)

    def power_iteration_contract(interp, fn, args, kwargs):
      mat = kwargs.get("matrix", args[0] if args else None)
      return T.opaque("pi_v", (mat.shape[0],)), T.Tensor((), T.float32, lambda idx: spec.fresh_real("max_ev", lo=0))

    it.call_contracts["power_iteration"] = power_iteration_contract
    rank = r if sign > 0 else -r
    eps = spec.fresh_real("ridge_epsilon")
    ctx.assume(eps >= 0)      # matrix_epsilon = 0 is an accepted configuration
    n_red = len(ctx.ghost.setdefault("reduce_calls", []))
    packed, metrics = m._low_rank_root(A, p, rank, ridge_epsilon=eps, relative_matrix_epsilon=False, padding_start=ps)
    V, ie, c, hz = m._low_rank_unpack(packed, rank)
    w, u = ctx.ghost["last_eigh"]
    # --- root values: whatever eigenvalues eigh returns (round-off may put them slightly BELOW the ridge), a direction
    # that is not padding has the root value max(lambda, ridge)^(-1/p) > 0; only exactly-zero (padding) eigenvalues get 0
    real_dim0 = ps if padded else d

    def e_masked(j):
      return w.at((j,)) * sym.ite(d - 1 - j < ps, 1.0, 0.0) if padded else w.at((j,))

    def root_value(j):
      ej = e_masked(j)
      # finite by construction: an eigenvalue whose clamped value is not positive (no ridge, singular input) has root value 0
      return sym.ite(sym.sor(ej == 0, sym.smax(ej, eps) <= 0), 0.0, sym.spow(sym.smax(ej, eps), -1.0 / p))

    def source(t):   # position t after the flip / roll  ->  ascending eigh index
      if sign > 0:
        return d - 1 - t
      sh = d - real_dim0
      return sym.ite(t + sh < d, t + sh, t + sh - d)

    kk = sk(ctx, "kr", r)
    ctx.oblige("_low_rank_root.post.retained root values are max(lambda, ridge)^(-1/p) of the retained eigenvalues (0 only for an exactly-zero eigenvalue)",
               ie.at((kk,)) == root_value(source(kk)), detail=f"sign={sign} padded={padded}")
    sums = [r_ for r_ in ctx.ghost["reduce_calls"][n_red:] if r_.kind == "sum"]
    ctx.require("_low_rank_root.structure: one sum (over the non-retained root values)", len(sums) >= 1)
    tsum = sums[-1]
    tt = spec.fresh_int("t_avg")
    ctx.assume(sym.sand(tt >= 0, tt < d - r))
    ctx.oblige("_low_rank_root.post.the averaged root values are those of ALL non-retained directions, each max(lambda, ridge)^(-1/p) "
               "(0 only for exactly-zero, i.e. padding, eigenvalues)", tsum.x.at((tt,)) == root_value(source(r + tt)),
               detail=f"sign={sign} padded={padded}")
    ctx.oblige("_low_rank_root.post.constant = sum of the non-retained root values / (unpadded dimension - |r|)",
               (c.item() if isinstance(c, T.Tensor) else c) * sym.ite(real_dim0 - r > 0, real_dim0 - r, 1) == tsum.value(()), detail=f"sign={sign} padded={padded}")
    k = sk(ctx, "k", r)
    i = sk(ctx, "i", d)
    real_dim = ps if padded else d
    if sign > 0:
      src = d - 1 - k
    else:
      src = k + (d - real_dim)
    ctx.oblige("_low_rank_root.post.kept-directions-are-the-|r|-largest(r>0)/smallest-unpadded(r<0)-eigh-columns",
               V.at((i, k)) == u.at((i, src)), detail=f"sign={sign} padded={padded}")
    ctx.oblige("_low_rank_root.post.shape", sym.sand(packed.shape[0] == d, packed.shape[1] == r + 2))
    if padded:
      ctx.oblige("_low_rank_root.post.all-padding-gives-zero (padding_start=0 cannot occur under r+1<=ps)", True)

  return t


# ---------------------------------------------------------------- S2 compressed application = dense matrix
def mk_apply(shape, sign):
  """Concrete small dims (contractions expanded exactly), every ENTRY symbolic: polynomial identity."""

  def t(ctx, it):
    import itertools
    m = it.load_module(DS)
    r = 1
    g = T.opaque("g", shape)
    pre = m.Preconditioner(g, 0, 4096, False, m.PreconditionerType.ALL, sign * r)
    shapes = pre.shapes_for_preconditioners()
    pcs, dense = [], []
    hz = bool(spec.fresh_bool("has_zeros"))  # fork: each path is a pure polynomial identity
    for a, dim in enumerate(shape):
      if r + 2 < dim:
        V = T.opaque(f"V{a}", (dim, r))
        e = T.opaque(f"e{a}", (r,))
        c = spec.fresh_real(f"c{a}")
        pcs.append(m._fd_low_rank_pack(V, T.zeros((r,)), e, c, 0.0, hz, sign * r))

        def D(i, j, V=V, e=e, c=c, dim=dim):
          vv = sum(V.at((i, k)) * V.at((j, k)) for k in range(r))
          ve = sum(V.at((i, k)) * e.at((k,)) * V.at((j, k)) for k in range(r))
          return c * ((1.0 if i == j else 0.0) - vv) + ve

        dense.append(("lowrank", D))
      else:
        P = T.opaque(f"P{a}", (dim, dim))
        pcs.append(P)
        dense.append(("dense", lambda i, j, P=P: P.at((i, j))))
    ctx.oblige("Preconditioner.shapes_for_preconditioners.post.matches-packed-shapes",
               all(list(map(int, [sym.concrete_int(x) for x in s_])) == [int(d_) for d_ in p_.shape]
                   for s_, p_ in zip(shapes, pcs)))
    out = pre.preconditioned_grad(g, pcs)
    ctx.oblige("Preconditioner.preconditioned_grad.post.shape", tuple(out.shape) == tuple(shape))
    for oidx in itertools.product(*[range(d) for d in shape]):
      want = 0.0
      for iidx in itertools.product(*[range(d) for d in shape]):
        term = g.at(iidx)
        for a in range(len(shape)):
          term = term * dense[a][1](iidx[a], oidx[a])
        want = want + term
      any_lr = any(k == "lowrank" for k, _ in dense)
      if any_lr:
        # has_zeros flags leave the gradient unchanged along the compressed axes
        want_skip = 0.0
        for iidx in itertools.product(*[range(d) for d in shape]):
          term = g.at(iidx)
          for a in range(len(shape)):
            if dense[a][0] == "lowrank":
              term = term * (1.0 if iidx[a] == oidx[a] else 0.0)
            else:
              term = term * dense[a][1](iidx[a], oidx[a])
          want_skip = want_skip + term
        want = want_skip if hz else want
      ctx.oblige("Preconditioner._precondition_block.post.compressed-application=dense-matrix c(I-VV')+V diag(e) V' along every axis (identity when flagged has_zeros)",
                 out.at(oidx) == want, detail=f"shape={shape} sign={sign} out index {oidx}")

  return t


def mk_flagged_fp(shape, sign):
  """'... or leaving the gradient unchanged when it is flagged as containing zeros': bit-precise float32, the packed
  contents are ARBITRARY bit patterns (inf / NaN included, e.g. left by a failed decomposition) - the flagged
  application must return the gradient bit for bit."""

  def t(ctx, it):
    import itertools
    from pyvc import fp
    with fp.fp_mode():
      m = it.load_module(DS)
      r = 1
      g = fp.opaque_fp("g", shape)
      pre = m.Preconditioner(g, 0, 4096, False, m.PreconditionerType.ALL, sign * r)
      pcs = []
      for a, dim in enumerate(shape):
        if r + 2 < dim:
          raw = fp.opaque_fp(f"packed{a}", (dim, r + 2))
          pcs.append(T.Tensor((dim, r + 2), T.float32,
                              lambda idx, raw=raw, dim=dim: fp.SFP(z3.If(sym.sand(idx[0] == dim - 1, idx[1] == r).z,
                                                                          z3.FPVal(1.0, fp.F32), raw.at(idx).z))))
        else:
          ctx.fail("flagged-fp task expects compressed axes only")
      out = pre.preconditioned_grad(g, pcs)
      for oidx in itertools.product(*[range(d) for d in shape]):
        ctx.oblige("Preconditioner._precondition_block.post.flagged has_zeros => the gradient is returned bit for bit, whatever "
                   "(finite or not) the packed contents are", out.at(oidx).same_bits(g.at(oidx)), detail=f"shape={shape} out index {oidx}")

  return t


def tasks(tier):
  shapes = [(4,), (4, 2), (2, 4), (2, 4, 2)] if tier == "quick" else [(4,), (4, 2), (2, 4), (4, 4), (2, 4, 2)]
  return [Task(f"compressed application[shape={sh},sign={s_}]", mk_apply(sh, s_))
          for sh in shapes for s_ in (1, -1)] + [Task(f"_low_rank_root[sign={s_},padded={pd}]", mk_low_rank_root(s_, pd))
          for s_ in (1, -1) for pd in (True, False)] + [Task("pack/unpack[r>0]", mk_pack(+1)), Task("pack/unpack[r<0]", mk_pack(-1)),
          Task("flagged application, float32 bit-precise[shape=(4,),r>0]", mk_flagged_fp((4,), 1)),
          Task("flagged application, float32 bit-precise[shape=(4,),r<0]", mk_flagged_fp((4,), -1)),
          Task("_precond_dim/_should_compress", t_dims), Task("pack rejects outside precondition", t_pack_rejects)]


def main(tier):
  return H.standard_main(PID, tier, tasks(tier), not_covered=NOT_COVERED,
                         structural=["pack/unpack: symbolic d, r, both signs of r"])
