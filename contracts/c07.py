"""C07 — state contract: named internal-error sites and layout equalities (DESIGN 7/C07).

P1  internal assertions / definedness of the shape bookkeeping for rank 0..4 incl. unit dims (shared with C06 / C10 / C13 / C01).
P2  unbatch keeps the element shape when a dimension is 1 (shared with C13).
P3  layout fixed point: for a grid of accepted option combinations x parameter trees (ranks 0..3, unit dims) the real
    init_fn + update_fn are executed (root routine = contract) in the tree-structure / shape / dtype view: the state after
    one update has the structure, leaf shapes and dtypes of the initial state; the update has the parameters' structure,
    shapes and dtype; nothing but an explanatory rejection is raised.
S5  sharded mode: the trees returned by sharded_init_fn, sharded_init_shape_and_dtype_fn and sharded_init_partition_spec_fn
    have one structure, and declared shapes / dtypes equal the actual ones leaf by leaf.
S6  trace-time assertions reachable through lax.cond / vmap (frequent directions, compression on small matrices).
S7  sharded_update_fn with reuse_preconditioner: every with_sharding_constraint argument has at least the spec's rank.
S8  lax.cond branch output types agree under jax_enable_x64 (Tearfree Sketchy).
"""
from __future__ import annotations

import itertools

import z3

from contracts import c06
from contracts import c13
from pyvc import ctx as C
from pyvc import harness as H
from pyvc import pytree
from pyvc import spec
from pyvc import sym
from pyvc import tensor as T
from pyvc.harness import Task
from pyvc.sym import SBool, SInt, SReal

PID = "C07"
DS = "precondition.distributed_shampoo"
SK = "precondition.tearfree.sketchy"
TS = "precondition.tearfree.shampoo"
SM = "precondition.sm3"

NOT_COVERED = [
    "that EVERY accepted configuration runs to completion (arbitrary JAX tracing errors): claimed for the named grid only",
    "AssertionError('all layers are too small for compression_rank') and jax's ValueError for LOBPCG on small matrices carry a message and are "
    "treated as explicit rejections (a reading of the property)",
    "LOBPCG (lobpcg_topk_precondition > 0) has no contract; multi-device layouts",
]

ALLOWED = (ValueError, NotImplementedError)


def sig(tree):
  """(structure, [(shape, dtype)]) of a pytree of tensors."""
  leaves, td = pytree.flatten(tree)
  out = []
  for l in leaves:
    if isinstance(l, T.Tensor):
      out.append((tuple(sym.concretize(d) if isinstance(d, sym.Sym) else d for d in l.shape), l.dtype.name))
    else:
      out.append(("py", type(l).__name__))
  return repr(td), out


def root_contract_for(m):

  def root_contract(interp, fn, args, kwargs):
    mat = args[0]
    return T.opaque("root", mat.shape, mat.dtype), m.TrainingMetrics(inverse_pth_root_errors=T.zeros((), T.float32))

  return root_contract


def pi_contract(interp, fn, args, kwargs):
  mat = kwargs.get("matrix", args[0] if args else None)
  return T.opaque("pi_v", (mat.shape[0],), mat.dtype), T.opaque("max_ev", (), mat.dtype)


TREES = {
    "matrix": {"w": (4, 3)},
    "vector": {"b": (5,)},
    "scalar": {"s": ()},
    "unit-dims": {"u": (1, 1), "v": (3, 1)},
    "rank3": {"t": (3, 2, 2)},
    "mixed": {"w": (6, 4), "b": (4,)},
    "matrix+scalar": {"w": (4, 3), "s": ()},
}

CONFIGS = {
    "default": dict(),
    "rmsprop-intervals": dict(graft_type="RMSPROP", statistics_compute_steps=2, preconditioning_compute_steps=2),
    "block1": dict(block_size=1),
    "int8-momenta": dict(best_effort_memory_usage_reduction=True),
    "no-metrics": dict(generate_training_metrics=False),
    "skip-rank<2": dict(skip_preconditioning_rank_lt=2),
    "precond-INPUT": dict(precondtioner_type="INPUT"),
    "precond-OUTPUT": dict(precondtioner_type="OUTPUT"),
    "eigh": dict(eigh=True),
    "compressed": dict(compression_rank=1, block_size=8),
    "reuse": dict(reuse_preconditioner=True),
    "fd": dict(compression_rank=1, block_size=8, frequent_directions=True, reuse_preconditioner=True),
    "fd-no-reuse": dict(compression_rank=1, block_size=8, frequent_directions=True),
    "fd-avg-grad": dict(compression_rank=1, block_size=8, frequent_directions=True, reuse_preconditioner=True, average_grad=True,
                        skip_preconditioning_rank_lt=2),
    "fd-metrics-only": dict(compression_rank=1, block_size=8, frequent_directions=True, reuse_preconditioner=True, generate_fd_metrics=True,
                            generate_training_metrics=False),
    "fd-metrics": dict(compression_rank=1, block_size=8, frequent_directions=True, reuse_preconditioner=True, generate_fd_metrics=True,
                       skip_preconditioning_rank_lt=2),
    "graft-ADAGRAD": dict(graft_type="ADAGRAD"),
    "graft-ADAGRAD_NORMALIZED": dict(graft_type="ADAGRAD_NORMALIZED"),
    "graft-RMSPROP_NORMALIZED": dict(graft_type="RMSPROP_NORMALIZED"),
    "graft-SQRT_N": dict(graft_type="SQRT_N"),
    "graft-NONE": dict(graft_type="NONE"),
    "fd-reset": dict(compression_rank=1, block_size=8, frequent_directions=True, reuse_preconditioner=True, reset_preconditioner=True),
}


def build(m, cfg):
  kw = dict(learning_rate=0.1, block_size=4)
  kw.update(cfg)
  if "graft_type" in kw:
    kw["graft_type"] = m.GraftingType[kw["graft_type"]]
  if "precondtioner_type" in kw:
    kw["precondtioner_type"] = m.PreconditionerType[kw["precondtioner_type"]]
  return m.distributed_shampoo(**kw)


def mk_layout(cname, tname):

  def t(ctx, it):
    m = it.load_module(DS)
    it.call_contracts["matrix_inverse_pth_root"] = root_contract_for(m)
    it.call_contracts["power_iteration"] = pi_contract
    it.explanatory_asserts.add("assert#0@distributed_shampoo.<locals>.precond_dim")
    tag = f"distributed_shampoo[{cname}]"
    try:
      opt = build(m, CONFIGS[cname])
    except ALLOWED as e:
      ctx.oblige(f"{tag}.constructor-rejects-with-an-explanatory-error", bool(str(e)), kind="layout")
      return
    params = {k: T.opaque("p_" + k, s) for k, s in TREES[tname].items()}
    grads = {k: T.opaque("g_" + k, s) for k, s in TREES[tname].items()}
    try:
      st0 = opt.init(params)
      upd, st1 = opt.update(grads, st0, params)
      upd2, st2 = opt.update(grads, st1, params)
    except ALLOWED as e:
      ctx.oblige(f"{tag}.init/update-rejects-with-an-explanatory-error", bool(str(e)), kind="layout", detail=str(e)[:120])
      return
    except AssertionError as e:
      if str(e):
        ctx.oblige(f"{tag}.assert-with-message-is-an-explanatory-rejection", True, kind="layout", detail=str(e)[:120])
        return
      raise
    s0, s1, s2 = sig(st0), sig(st1), sig(st2)
    ctx.oblige(f"{tag}.post.state-after-update-has-the-initial-tree-structure", s0[0] == s1[0] and s1[0] == s2[0], kind="layout",
               detail=f"tree={tname}: {s0[0][:150]} vs {s1[0][:150]}")
    if s0[0] == s1[0]:
      bad = [(a, b) for a, b in zip(s0[1], s1[1]) if a != b] + [(a, b) for a, b in zip(s1[1], s2[1]) if a != b]
      ctx.oblige(f"{tag}.post.state-leaves-keep-shape-and-dtype", not bad, kind="layout", detail=f"tree={tname}: {bad[:3]}")
    ps, us = sig(params), sig(upd)
    ctx.oblige(f"{tag}.post.update-tree-has-the-parameters'-structure-shapes-dtype", ps == us, kind="layout",
               detail=f"tree={tname}: {ps[1]} vs {us[1]}")

  return t


# ---------------------------------------------------------------- S5 / S7 sharded
def walk_declared(actual, declared, path, out):
  """Parallel walk: `declared` holds [shape-list, dtype] (or [] for empty leaves) where `actual` holds arrays."""
  if isinstance(actual, T.Tensor):
    if not (isinstance(declared, list) and len(declared) == 2 and isinstance(declared[0], (list, tuple))):
      out.append((path, "declared entry is not [shape, dtype]", repr(declared)[:60]))
      return
    shp = tuple(sym.concretize(d) if isinstance(d, sym.Sym) else d for d in actual.shape)
    dshp = tuple(sym.concretize(d) if isinstance(d, sym.Sym) else d for d in declared[0])
    if shp != dshp:
      out.append((path, f"shape {shp} declared {dshp}", ""))
    if T.as_dtype(declared[1]) != actual.dtype:
      out.append((path, f"dtype {actual.dtype.name} declared {T.as_dtype(declared[1]).name}", ""))
    return
  if isinstance(actual, list) and not actual:
    if declared != []:
      out.append((path, "empty leaf declared non-empty", repr(declared)[:60]))
    return
  na, nd = pytree._node_children(actual), pytree._node_children(declared)
  if na is None or nd is None:
    if na is not None or nd is not None:
      out.append((path, "node vs leaf", f"{type(actual).__name__} / {type(declared).__name__}"))
    return
  if na[0] != nd[0] or len(na[2]) != len(nd[2]):
    out.append((path, "structure differs", f"{na[0]}/{len(na[2])} vs {nd[0]}/{len(nd[2])}"))
    return
  if na[0] == "struct":
    # static (pytree_node=False) fields must agree too
    sa = {k: v for k, v in na[1][2]}
    sd = {k: v for k, v in nd[1][2]}
    for k in sa:
      if k in ("index_start", "sizes", "shape", "extract_diagonal", "quantized_dtype") and repr(sa[k]) != repr(sd.get(k)):
        out.append((path + "." + k, f"static field {sa[k]!r} declared {sd.get(k)!r}", ""))
  names = na[1][1] if na[0] == "struct" else range(len(na[2]))
  for nm, a, d in zip(names, na[2], nd[2]):
    walk_declared(a, d, f"{path}.{nm}", out)


def mk_sharded(cname, tname):

  def t(ctx, it):
    m = it.load_module(DS)
    it.call_contracts["matrix_inverse_pth_root"] = root_contract_for(m)
    it.call_contracts["power_iteration"] = pi_contract
    it.explanatory_asserts.add("assert#0@distributed_shampoo.<locals>.precond_dim")
    P = it.libs["jax"].sharding.PartitionSpec
    cfg = dict(CONFIGS[cname])
    cfg.update(shard_optimizer_states=True, num_devices_for_pjit=2, statistics_partition_spec=P("x", None, None),
               preconditioner_partition_spec=P("x", None, None))
    tag = f"distributed_shampoo.sharded[{cname}]"
    opt = build(m, cfg)
    params = {k: T.opaque("p_" + k, s) for k, s in TREES[tname].items()}
    fns = opt.init(params)
    actual = fns.init_fn(params)
    declared = fns.shape_and_dtype_fn(params)
    pspecs = fns.pspec_fn(params, {k: P() for k in params}, P("x", None, None))
    out = []
    walk_declared(actual, declared, "state", out)
    ctx.oblige(f"{tag}.post.declared-shapes-and-dtypes-equal-the-actual-initial-state-leaf-by-leaf", not out, kind="layout",
               detail=f"tree={tname}: {out[:3]}")
    la, ta = pytree.flatten(actual)
    lp, tp = pytree.flatten(pspecs, is_leaf=lambda x: isinstance(x, P))
    ctx.oblige(f"{tag}.post.partition-spec-tree-has-one-spec-per-array-leaf", len(la) == len(lp), kind="layout",
               detail=f"tree={tname}: {len(la)} array leaves vs {len(lp)} specs")
    grads = {k: T.opaque("g_" + k, s) for k, s in TREES[tname].items()}
    upd, st1 = opt.update(grads, actual, params)
    s0, s1 = sig(actual), sig(st1)
    ctx.oblige(f"{tag}.post.sharded-state-after-update-has-the-initial-layout", s0 == s1, kind="layout",
               detail=f"tree={tname}: {[x for x in zip(s0[1], s1[1]) if x[0] != x[1]][:3]}")

  return t


# ---------------------------------------------------------------- S8 sketchy under x64
def t_sketchy_x64(ctx, it):
  T.set_x64(True)
  try:
    sk = it.load_module(SK)
    opts = sk.Options(rank=2)
    p = T.opaque("p", (4, 3), T.float64)
    st = sk._init(opts, p)
    g = T.opaque("g", (4, 3), T.float64)
    upd, st1 = sk._update(opts, g, st)
    ctx.oblige("tearfree.sketchy._update[jax_enable_x64].post.state-layout-is-a-fixed-point", sig(st) == sig(st1), kind="layout")
    ctx.oblige("tearfree.sketchy._update[jax_enable_x64].post.update-has-the-parameter's-shape-and-dtype", sig(upd) == sig(p), kind="layout")
  finally:
    T.set_x64(False)


def t_tearfree_layout(ctx, it):
  sk = it.load_module(SK)
  sh = it.load_module(TS)
  sm = it.load_module(SM)
  for name, init, update in (
      ("tearfree.sketchy", lambda p: sk._init(sk.Options(rank=2), p), lambda g, s: sk._update(sk.Options(rank=2), g, s)),
      ("tearfree.sketchy[ekfac_svd]", lambda p: sk._init(sk.Options(rank=2, ekfac_svd=True), p),
       lambda g, s: sk._update(sk.Options(rank=2, ekfac_svd=True), g, s)),
      ("tearfree.shampoo", lambda p: sh._init(sh.Options(block_size=4), p), lambda g, s: sh._update(sh.Options(block_size=4), g, s))):
    for shape in ((4, 3), (8, 2), (8,), (12, 2)):
      p = T.opaque("p", shape)
      st = init(p)
      upd, st1 = update(T.opaque("g", shape), st)
      ctx.oblige(f"{name}._update.post.state-layout-is-a-fixed-point", sig(st) == sig(st1), kind="layout", detail=str(shape))
      ctx.oblige(f"{name}._update.post.update-has-the-parameter's-shape-and-dtype", sig(upd) == sig(p), kind="layout", detail=str(shape))
  opt = sm.sm3(0.1)
  for shape in ((4, 3), (5,), (2, 1, 3)):
    p = T.opaque("p", shape)
    st = opt.init(p)
    upd, st1 = opt.update(T.opaque("g", shape), st, p)
    ctx.oblige("sm3.update_fn.post.state-layout-is-a-fixed-point", sig(st) == sig(st1), kind="layout", detail=str(shape))
    ctx.oblige("sm3.update_fn.post.update-has-the-parameter's-shape-and-dtype", sig(upd) == sig(p), kind="layout", detail=str(shape))
  try:
    sh._init(sh.Options(block_size=4), T.opaque("p", (4, 1)))
    ctx.fail("tearfree.shampoo._init.unit-dimension-must-be-rejected", kind="layout")
  except ValueError as e:
    ctx.oblige("tearfree.shampoo._init.unit-dimension-is-rejected-with-an-explanatory-ValueError", bool(str(e)), kind="layout")


def mk_tf_shampoo_accept(shape):
  """Tearfree Shampoo on one parameter shape (dims from {2, block, 2*block}): _init either rejects with an explanatory
  ValueError, or the state it returns can be used: the first update runs and keeps the layout."""

  def t(ctx, it):
    sh = it.load_module(TS)
    opts = sh.Options(block_size=4)
    p = T.opaque("p", shape)
    try:
      st = sh._init(opts, p)
    except ValueError as e:
      ctx.oblige("tearfree.shampoo._init: rejection is an explanatory ValueError", bool(str(e)), kind="layout", detail=str(shape))
      return
    try:
      upd, st1 = sh._update(opts, T.opaque("g", shape), st)
    except (AssertionError, TypeError, IndexError, KeyError) as e:
      ctx.fail("tearfree.shampoo: a parameter accepted by _init makes _update raise an internal error", kind="layout",
               detail=f"shape={shape}: {type(e).__name__}: {str(e)[:120]}")
      return
    ctx.oblige("tearfree.shampoo._update.post.state-layout-is-a-fixed-point (accepted shape)", sig(st) == sig(st1), kind="layout", detail=str(shape))
    ctx.oblige("tearfree.shampoo._update.post.update-has-the-parameter's-shape-and-dtype (accepted shape)", sig(upd) == sig(p), kind="layout", detail=str(shape))

  return t


def tasks(tier):
  ts = []
  for rank in (1, 2, 3):
    for shape in itertools.product((2, 4, 8), repeat=rank):
      ts.append(Task(f"tearfree shampoo accepts-or-rejects[{shape}]", mk_tf_shampoo_accept(shape)))
  for cname in CONFIGS:
    for tname in TREES:
      if cname.startswith("graft-") and tname not in ("matrix", "mixed"):
        continue  # the grafting type does not interact with the tree shape: two trees suffice
      if tname == "mixed" and (cname.startswith("fd") or cname == "compressed"):
        continue  # the low-rank routines on a two-leaf tree take minutes of solver-aided simplification; other trees cover them
      ts.append(Task(f"layout[{cname},{tname}]", mk_layout(cname, tname)))
  for cname in ("default", "int8-momenta", "reuse", "fd", "no-metrics"):
    for tname in ("matrix", "mixed", "vector"):
      ts.append(Task(f"sharded[{cname},{tname}]", mk_sharded(cname, tname)))
  ts.append(Task("tearfree sketchy under x64", t_sketchy_x64))
  ts.append(Task("tearfree / sm3 layout", t_tearfree_layout))
  # shared site obligations (P1, P2)
  for r in range(0, 5):
    ts.append(Task(f"BlockPartitioner.__init__[rank={r}] (shared with C06)", c06.mk_partitioner(r)))
  for r in (1, 2):
    for pt in ("ALL", "INPUT", "OUTPUT"):
      ts.append(Task(f"Preconditioner[rank={r},{pt}] (shared with C06)", c06.mk_preconditioner(r, pt, (1,) * r, False)))
  for b1, b2 in ((1, 1), (2, 2), (1, 3)):
    for er in (0, 2):
      ts.append(Task(f"unbatch[b1={b1},b2={b2},elem_rank={er}] (shared with C13)", c13.mk_unbatch(b1, b2, er)))
  return ts


def main(tier):
  return H.standard_main(PID, tier, tasks(tier), not_covered=NOT_COVERED,
                         structural=[f"{len(CONFIGS)} option combinations x {len(TREES)} parameter trees (init + 2 updates), 5 x 3 sharded, Tearfree/SM3 layouts"])
