"""C12 — SM3 accumulators cover the true second moment.

State invariant with ghost state (DESIGN 7/C12), proved for one real update_fn call at symbolic
dims, rank 1..4, real arithmetic, beta2 in (0,1]:
  Inv:  for every coordinate x and axis i:  acc_i[x_i] >= nu[x] >= T[x] >= 0
        for every axis i and index k:        acc_i[k] = nu[wit_i(k)]   with wit_i(k)_i = k
ghosts: T = exact decayed sum of squared gradients, nu = last per-entry estimate.
"""
from __future__ import annotations

import z3

from pyvc import ctx as C
from pyvc import harness as H
from pyvc import spec
from pyvc import sym
from pyvc import tensor as T
from pyvc.harness import Task
from pyvc.sym import SBool, SInt, SReal

PID = "C12"
SM = "precondition.sm3"

NOT_COVERED = [
    "rounding: the cover holds in floats only up to the rounding of the reference sum",
    "the momentum / weight-decay tail of the update (not part of the statement); P4 is stated with beta1 = 0, weight_decay = 0",
    "rank-0 parameters (rejected by QuantizedValue.quantize with an explanatory ValueError)",
]


def mk(rank, beta2_one, normalize=False):
  """normalize: normalize_grads=True - the whole contract is then about the NORMALISED gradient g / (|g| + tiny): the
  accumulators cover its decayed sum of squares and the step is bounded by the diagonal method's step on it."""

  def t(ctx, it):
    m = it.load_module(SM)
    QV = it.load_module("precondition.quantization_utils").QuantizedValue
    lr = spec.fresh_real("lr")
    eps = spec.fresh_real("eps", lo=0)
    ctx.assume(eps > 0)
    if beta2_one:
      beta2 = 1.0
    else:
      beta2 = spec.fresh_real("beta2")
      ctx.assume(sym.sand(beta2 > 0, beta2 < 1))
    opt = m.sm3(lr, beta1=0.0, beta2=beta2, diagonal_epsilon=eps, weight_decay=0.0, normalize_grads=normalize)
    dims = tuple(spec.fresh_int(f"d{a}", lo=1) for a in range(rank))
    g_raw = T.opaque("g", dims)
    g = g_raw
    Tg = T.opaque("T", dims)     # ghost: exact decayed sum of squares
    nu = T.opaque("nu", dims)    # ghost: last per-entry estimate
    accs = [T.opaque(f"acc{i}", (dims[i],)) for i in range(rank)]
    wit = [[z3.Function(f"wit{i}_{a}", z3.IntSort(), z3.IntSort()) for a in range(rank)] for i in range(rank)]

    def inv_at(x):
      """Inv instantiated at coordinate x (assumption side)."""
      cs = [Tg.at(x) >= 0, nu.at(x) >= Tg.at(x)]
      for i in range(rank):
        cs.append(accs[i].at((x[i],)) >= nu.at(x))
      if rank == 1:
        cs.append(accs[0].at((x[0],)) == Tg.at(x))
      return sym.sand(*cs)

    def wit_point(i, k):
      return tuple(k if a == i else SInt(wit[i][a](k.z)) for a in range(rank))

    def inv_wit(i, k):
      y = wit_point(i, k)
      inr = sym.sand(*[sym.sand(y[a] >= 0, y[a] < dims[a]) for a in range(rank)])
      return sym.sand(inr, accs[i].at((k,)) == nu.at(y))

    x = tuple(spec.fresh_int(f"x{a}") for a in range(rank))
    ctx.assume(sym.sand(*[sym.sand(x[a] >= 0, x[a] < dims[a]) for a in range(rank)]))
    ctx.index_points.append(x)
    ctx.assume(inv_at(x))
    ks = []
    for i in range(rank):
      k = spec.fresh_int(f"k{i}")
      ctx.assume(sym.sand(k >= 0, k < dims[i]))
      ks.append(k)
      ctx.assume(inv_wit(i, k))
      y = wit_point(i, k)
      ctx.index_points.append(y)
      ctx.assume(inv_at(y))
    mom = QV.from_float_value(T.zeros(dims), T.int8)
    state = m.SM3State(count=T.zeros((), T.int32), stats=m.ParameterStats(accs, mom))
    n_red = len(ctx.ghost.setdefault("reduce_calls", []))
    updates, new_state = opt.update(g_raw, state, g_raw)
    if normalize:
      nrm = [r_ for r_ in ctx.ghost["reduce_calls"][n_red:] if r_.kind == "norm"]
      ctx.require("sm3.update_fn.normalize_grads: one norm, over the gradient", len(nrm) >= 1)
      yy = tuple(spec.fresh_int(f"yn{a}") for a in range(rank))
      ctx.assume(sym.sand(*[sym.sand(yy[a] >= 0, yy[a] < dims[a]) for a in range(rank)]))
      ctx.oblige("sm3.update_fn.normalize_grads: the norm ranges over the raw gradient", nrm[0].x.at(yy) == g_raw.at(yy))
      Nv = nrm[0].value(())
      g = T.Tensor(dims, T.float32, lambda idx: g_raw.at(idx) / (Nv + 1e-16))
    new_accs = new_state.stats.diagonal_statistics
    w = 1.0 if beta2_one else 1.0 - beta2
    g2 = g.at(x) * g.at(x)
    T_new = beta2 * Tg.at(x) + w * g2
    mn = accs[0].at((x[0],))
    for i in range(1, rank):
      mn = sym.smin(mn, accs[i].at((x[i],)))
    nu_new = beta2 * mn + w * g2          # ghost update of nu (definition)
    tag = "sm3.update_fn"
    ctx.require(f"{tag}.post.one-accumulator-per-axis", len(new_accs) == rank)
    for i in range(rank):
      ctx.require(f"{tag}.post.accumulator-shape-axis{i}", len(new_accs[i].shape) == 1 and
                  sym.prove(new_accs[i].shape[0] == dims[i]))
      a_new = new_accs[i].at((x[i],))
      ctx.oblige(f"{tag}.inv-preserved.acc'_i[x_i]>=nu'[x]", a_new >= nu_new, detail=f"axis {i}")
    ctx.oblige(f"{tag}.inv-preserved.nu'[x]>=T'[x]>=0", sym.sand(nu_new >= T_new, T_new >= 0))
    ctx.oblige(f"{tag}.post.min_i acc'_i[x_i] >= exact decayed sum of squares T'[x]",
               sym.sand(*[new_accs[i].at((x[i],)) >= T_new for i in range(rank)]))
    if rank == 1:
      ctx.oblige(f"{tag}.post.rank1: acc' = T' exactly (SM3 = diagonal AdaGrad/RMSProp)",
                 new_accs[0].at((x[0],)) == T_new)
    # witness part of Inv' (acc'_i[k] is attained by nu' somewhere on the slice) is the `max` witness axiom;
    # monotonicity for beta2 = 1 uses the witness part of Inv at k:
    if beta2_one:
      for i in range(rank):
        ctx.oblige(f"{tag}.post.beta2=1: accumulators never decrease", new_accs[i].at((ks[i],)) >= accs[i].at((ks[i],)),
                   detail=f"axis {i}")
    ctx.oblige(f"{tag}.post.count+1", new_state.count.item() == 1)
    # P4: the step is never larger than diagonal AdaGrad/RMSProp's (beta1 = 0, no weight decay)
    u = updates.at(x)
    ref_den = sym.ssqrt(T_new + eps)
    ctx.oblige(f"{tag}.post.|step| <= |lr*g/sqrt(T'+eps)|",
               u * u * (T_new + eps) <= lr * lr * g2)

  return t


def t_init(ctx, it):
  m = it.load_module(SM)
  opt = m.sm3(0.1)
  for rank in (1, 2, 3):
    dims = tuple(spec.fresh_int(f"d{rank}_{a}", lo=1) for a in range(rank))
    p = T.opaque("p", dims)
    st = opt.init(p)
    accs = st.stats.diagonal_statistics
    ctx.oblige("sm3.init_fn.post.one-zero-accumulator-per-axis",
               len(accs) == rank and all(sym.prove(a.shape[0] == d) for a, d in zip(accs, dims)))
    for i, a in enumerate(accs):
      k = spec.fresh_int("k")
      ctx.oblige("sm3.init_fn.post.Inv-established(all zeros)", a.at((k,)) == 0)
  # the accumulators are sums of squares over the whole history: they are kept in float32 whatever the parameter dtype
  # (a bfloat16 / float16 accumulator stops growing once it is 2^8 / 2^11 times larger than the next square)
  for dt in (T.bfloat16, T.float32):
    p = T.opaque("p_" + dt.name, (spec.fresh_int("e0", lo=1), spec.fresh_int("e1", lo=1)), dt)
    st = opt.init(p)
    ctx.oblige("sm3.init_fn.post.accumulators are float32 whatever the parameter dtype",
               all(a.dtype == T.float32 for a in st.stats.diagonal_statistics), kind="layout", detail=f"parameter dtype {dt.name}")


def tasks(tier):
  ts = [Task("sm3.init", t_init)]
  for r in (1, 2, 3, 4):
    for b1 in (False, True):
      ts.append(Task(f"sm3.update[rank={r},beta2=1:{b1}]", mk(r, b1)))
  for r, b1 in ((1, True), (2, False), (2, True), (3, False)):
    ts.append(Task(f"sm3.update[rank={r},beta2=1:{b1},normalize_grads]", mk(r, b1, True)))
  return ts


def main(tier):
  return H.standard_main(PID, tier, tasks(tier), not_covered=NOT_COVERED,
                         structural=["rank 1..4 x {beta2 in (0,1), beta2 = 1}; dims, entries, hyper-parameters symbolic"])
