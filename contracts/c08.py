"""C08 — blocks and parameters do not influence each other (relational frame condition by reads analysis).

P1  Tearfree Shampoo: for the real _update_block_stats, _pth_inv_root, _update_block_precond, _precondition_blocks and the
    whole _update, the value of every output at block b0 reads the inputs (gradient, statistics, roots) at block b0 only
    (reductions / contractions / batched eigh expanded through their operands; pyvc/deps.py).  Two runs that agree on
    block b0 therefore agree on block b0's outputs.  The einsum built in _precondition_blocks contracts axis i with root i.
P2  Distributed Shampoo: Preconditioner.updated_statistics_from_grad: statistic k reads the gradient only inside the box
    of block k // n; preconditioned_grad: the output inside block i reads only roots [i*n, (i+1)*n) and the gradient inside
    block i (2 blocks along one axis, symbolic dims).  update_fn maps per leaf (jax.tree.map): C02-S5.
"""
from __future__ import annotations

import z3

from pyvc import ctx as C
from pyvc import deps
from pyvc import harness as H
from pyvc import spec
from pyvc import sym
from pyvc import tensor as T
from pyvc.harness import Task
from pyvc.sym import SBool, SInt, SReal

PID = "C08"
TS = "precondition.tearfree.shampoo"
DS = "precondition.distributed_shampoo"

NOT_COVERED = [
    "numerical independence from the amount of zero padding (max_size) inside the Distributed Shampoo root routines beyond the exact-zero padding invariant (C01)",
    "the parameter-level grafting norm (explicitly allowed by the statement) is not part of the locality claim",
    "DS P2 is proved for two blocks along one axis (symbolic dims), not for a symbolic number of blocks",
]


def local_to(ctx, value, b0, batch_pos, tag, what):
  """Obligation: every input read of `value` has batch index b0."""
  rd = deps.collect(value)
  conds = []
  for name, args in rd.items:
    pos = batch_pos.get(name)
    if pos is None:
      continue
    conds.append(SBool(args[pos] == sym._as_int_z(b0)))
  ctx.oblige(f"{tag}.frame: {what} of block b0 reads inputs at block b0 only", sym.sand(*conds) if conds else True,
             kind="frame", detail=f"{len(conds)} reads of block-indexed inputs")
  ctx.oblige(f"{tag}.frame: {what} depends on some block input (non-vacuity)", len(conds) > 0, kind="frame")


def mk_tf(rank, large_axes):

  def t(ctx, it):
    sh = it.load_module(TS)
    B = 4
    opts = sh.Options(block_size=B, second_moment_decay=spec.fresh_real("decay", lo=0, hi=1))
    nblk = {a: spec.fresh_int(f"q{a}", lo=1) for a in large_axes}
    dims = tuple(nblk[a] * B if a in large_axes else 3 for a in range(rank))
    meta = sh._blocks_metadata(opts, dims, "p")
    Nb = meta.num_blocks
    bsz = meta.block_sizes
    g_shape = list(bsz)
    g_shape.insert(meta.blocks_axis, Nb)
    g = deps.register_input(T.opaque("gblk", tuple(g_shape)), "g")
    stats = [deps.register_input(T.opaque(f"stats{a}", (Nb, d, d)), f"stats{a}") for a, d in enumerate(bsz)]
    roots = [deps.register_input(T.opaque(f"roots{a}", (Nb, d, d)), f"roots{a}") for a, d in enumerate(bsz)]
    pos = {"g": meta.blocks_axis}
    for a in range(rank):
      pos[f"stats{a}"] = 0
      pos[f"roots{a}"] = 0
    blk = sh._AxesBlocks(stats, roots)
    b0 = spec.fresh_int("b0")
    ctx.assume(sym.sand(b0 >= 0, b0 < Nb))
    # statistics
    new_blk = sh._update_block_stats(opts.second_moment_decay, g, blk, meta)
    for a, d in enumerate(bsz):
      i = spec.fresh_int(f"i{a}")
      j = spec.fresh_int(f"j{a}")
      ctx.assume(sym.sand(i >= 0, i < d, j >= 0, j < d))
      local_to(ctx, new_blk.stats[a].at((b0, i, j)), b0, pos, "tearfree.shampoo._update_block_stats", f"statistic of axis {a}")
    # roots
    pre_blk = sh._update_block_precond(blk, meta)
    for a, d in enumerate(bsz):
      i = spec.fresh_int(f"ri{a}")
      j = spec.fresh_int(f"rj{a}")
      ctx.assume(sym.sand(i >= 0, i < d, j >= 0, j < d))
      local_to(ctx, pre_blk.roots[a].at((b0, i, j)), b0, pos, "tearfree.shampoo._pth_inv_root", f"root of axis {a}")
    # preconditioning
    out = sh._precondition_blocks(g, blk, meta)
    oidx = []
    for a, d in enumerate(g_shape):
      if a == meta.blocks_axis:
        oidx.append(b0)
      else:
        k = spec.fresh_int(f"o{a}")
        ctx.assume(sym.sand(k >= 0, k < d))
        oidx.append(k)
    ctx.require("tearfree.shampoo._precondition_blocks.post.shape", len(out.shape) == len(g_shape))
    local_to(ctx, out.at(tuple(oidx)), b0, pos, "tearfree.shampoo._precondition_blocks", "preconditioned gradient")
    # the einsum contracts axis a of the block with root a (axis provenance)
    formula, ops = out.tags["einsum"]
    ins, res = formula.split("->")
    specs = ins.split(",")
    okp = len(specs) == rank + 1
    gspec = specs[0]
    bl = gspec[meta.blocks_axis]
    inner_in = gspec[:meta.blocks_axis] + gspec[meta.blocks_axis + 1:]
    inner_out = res[:meta.blocks_axis] + res[meta.blocks_axis + 1:]
    for a in range(rank):
      ps = specs[1 + a]
      okp = okp and ps[0] == bl and ps[2] == inner_in[a] and ps[1] == inner_out[a] and ops[1 + a] is roots[a]
    okp = okp and res[meta.blocks_axis] == bl
    ctx.oblige("tearfree.shampoo._precondition_blocks.einsum: block letter in every operand and the output; axis a contracted with root a",
               okp, detail=formula)

  return t


def mk_tf_update(rank, large_axes):
  """The whole _update (blockify -> statistics -> roots -> precondition -> deblockify) on a parameter whose large
  axes hold a symbolic number of blocks: the output entries of block (b_a)_a read the gradient box and the state
  rows of that block only."""

  def t(ctx, it):
    sh = it.load_module(TS)
    B = 4
    opts = sh.Options(block_size=B)
    q = {a: spec.fresh_int(f"q{a}", lo=1) for a in large_axes}
    shape = tuple(q[a] * B if a in large_axes else 3 for a in range(rank))
    nb = 1
    for a in large_axes:
      nb = nb * q[a]
    bsz = tuple(B if a in large_axes else 3 for a in range(rank))
    gfull = deps.register_input(T.opaque("g", shape), "g")
    stats = [deps.register_input(T.opaque(f"stats{a}", (nb, d, d)), f"stats{a}") for a, d in enumerate(bsz)]
    roots = [deps.register_input(T.opaque(f"roots{a}", (nb, d, d)), f"roots{a}") for a, d in enumerate(bsz)]
    st = sh._ShampooState(count=T.asarray(spec.fresh_int("count", lo=0)), blocks=sh._AxesBlocks(stats, roots))
    upd, new = sh._update(opts, gfull, st)
    bidx = {a: spec.fresh_int(f"b{a}") for a in large_axes}
    flat = 0
    for a in large_axes:
      ctx.assume(sym.sand(bidx[a] >= 0, bidx[a] < q[a]))
      flat = flat * q[a] + bidx[a]
    oidx = []
    for a in range(rank):
      r = spec.fresh_int(f"r{a}")
      ctx.assume(sym.sand(r >= 0, r < bsz[a]))
      oidx.append(bidx[a] * B + r if a in large_axes else r)
    val = upd.at(tuple(oidx))
    rd = deps.collect(val)
    conds = []
    for name, args in rd.items:
      if name == "g":
        for a in large_axes:
          x = SInt(args[a])
          conds.append(sym.sand(x >= bidx[a] * B, x < (bidx[a] + 1) * B))
      else:
        conds.append(SBool(args[0] == sym._as_int_z(flat)))
    ctx.oblige("tearfree.shampoo._update.frame: the update of a block reads the gradient box and the state of that block only",
               sym.sand(*conds) if conds else True, kind="frame", detail=f"{len(conds)} reads")
    ctx.oblige("tearfree.shampoo._update.frame: non-vacuity", len(conds) > 0, kind="frame")

  return t


def t_ds_blocks(ctx, it):
  m = it.load_module(DS)
  bs = spec.fresh_int("block_size", lo=1)
  d0 = spec.fresh_int("d0")
  ctx.assume(sym.sand(d0 > bs, d0 <= 2 * bs))
  d1 = spec.fresh_int("d1", lo=1)
  ctx.assume(d1 <= bs)
  g = deps.register_input(T.opaque("g", (d0, d1)), "g")
  pre = m.Preconditioner(g, bs, 4096, False, m.PreconditionerType.ALL, 0)
  sizes = [(bs, bs), (d1, d1), (d0 - bs, d0 - bs), (d1, d1)]
  old = [deps.register_input(T.opaque(f"S{k}", s_), f"S{k}") for k, s_ in enumerate(sizes)]
  new = pre.updated_statistics_from_grad(old, g, 0.9, 0.1)
  ctx.require("Preconditioner.updated_statistics_from_grad.post.count", len(new) == 4)
  boxes = [(0, bs), (0, bs), (bs, d0), (bs, d0)]
  for k in range(4):
    i = spec.fresh_int(f"i{k}")
    j = spec.fresh_int(f"j{k}")
    ctx.assume(sym.sand(i >= 0, i < sizes[k][0], j >= 0, j < sizes[k][0]))
    rd = deps.collect(new[k].at((i, j)))
    conds = []
    for name, args in rd.items:
      if name == "g":
        row = SInt(args[0])
        conds.append(sym.sand(row >= boxes[k][0], row < boxes[k][1]))
      elif name.startswith("S"):
        conds.append(name == f"S{k}")
    ctx.oblige("Preconditioner.updated_statistics_from_grad.frame: statistic k reads the gradient inside block k//n and old statistic k only",
               sym.sand(*conds) if conds else True, kind="frame", detail=f"k={k}, {len(conds)} reads")
    ctx.oblige("Preconditioner.updated_statistics_from_grad.frame: non-vacuity", len(conds) >= 2, kind="frame")
  roots = [deps.register_input(T.opaque(f"P{k}", s_), f"P{k}") for k, s_ in enumerate(sizes)]
  out = pre.preconditioned_grad(g, roots)
  for blk_i, (lo, hi) in enumerate([(0, bs), (bs, d0)]):
    r = spec.fresh_int(f"r{blk_i}")
    c_ = spec.fresh_int(f"c{blk_i}")
    ctx.assume(sym.sand(r >= lo, r < hi, c_ >= 0, c_ < d1))
    rd = deps.collect(out.at((r, c_)))
    conds = []
    for name, args in rd.items:
      if name == "g":
        row = SInt(args[0])
        conds.append(sym.sand(row >= lo, row < hi))
      elif name.startswith("P"):
        conds.append(name in (f"P{2 * blk_i}", f"P{2 * blk_i + 1}"))
    ctx.oblige("Preconditioner.preconditioned_grad.frame: block i is preconditioned by roots [i*n,(i+1)*n) and its own gradient only",
               sym.sand(*conds) if conds else True, kind="frame", detail=f"block {blk_i}, {len(conds)} reads")
    ctx.oblige("Preconditioner.preconditioned_grad.frame: non-vacuity", len(conds) >= 3, kind="frame")


def tasks(tier):
  ts = []
  for rank, la in ((1, (0,)), (2, (0,)), (2, (1,)), (2, (0, 1)), (2, ()), (3, (0, 2))):
    ts.append(Task(f"tearfree shampoo locality[rank={rank},large_axes={la}]", mk_tf(rank, la)))
  for rank, la in ((2, (0,)), (2, (0, 1)), (3, (0, 2)), (3, (1, 2))):
    ts.append(Task(f"tearfree shampoo _update locality[rank={rank},large_axes={la}]", mk_tf_update(rank, la)))
  ts.append(Task("distributed shampoo block locality", t_ds_blocks))
  # the acceptance gate is per statistic (= per block and axis): a block's stored preconditioner is
  # gate(its previous one, the root of ITS statistic, ITS error), whatever happens to the other blocks of the tensor
  # the largest-eigenvalue estimate of a PADDED statistic must not see the padding (padding depends on the companions):
  # the power iteration starts from a vector that is zero on the padding rows and returns its Rayleigh quotient (C01)
  from contracts import c01
  ts.append(Task("power_iteration ignores the padding of a statistic", c01.mk_pi_result(True)))
  # the root exponent of a parameter's statistics is its own, whatever the companion parameters are (shared with C02)
  from contracts import c02
  for ra, rb in ((1, 2), (2, 1), (2, 3)):
    ts.append(Task(f"root exponent does not depend on the companion parameter[ranks {ra},{rb}]", c02.mk_exponent_companion(ra, rb)))
  # the preconditioned blocks are merged back into their OWN boxes (two blocked axes with different block counts incl.)
  from contracts import c06
  for blocks in ((2, 3), (3, 2), (2, 1, 3)):
    ts.append(Task(f"blocks are merged back into their own boxes[blocks={blocks}]", c06.mk_partition_order(len(blocks), blocks)))
  from contracts import c13
  for n, d, gr in ((3, 1, (3,)), (4, 2, (4,)), (3, 2, (2, 1))):
    ts.append(Task(f"distributed shampoo per-block acceptance[N={n},D={d},statistics per parameter {gr}]", c13.mk_p3(n, d, gr)))
  return ts


def main(tier):
  return H.standard_main(PID, tier, tasks(tier), not_covered=NOT_COVERED,
                         trusted_extra=["reads analysis: the value of a term is a function of its reads (pyvc/deps.py); batched eigh: block b of the "
                                        "result depends on block b of the operand only"],
                         structural=["Tearfree Shampoo: 6 placements of large axes, symbolic number of blocks", "DS: 2 blocks along one axis, symbolic dims"])
