"""C09 — frequent-directions sketch: per-step algebraic contract of the three implementations.

The PSD bracket itself is the FD theorem (cited).  What the code must get right for the theorem to apply
is proved here on the real code, real arithmetic, SVD outputs opaque (s descending, >= 0):
P1  escaped mass   t' = b*t + r,  r = s[k]^2 (0 if k >= len(s))
P2  retained eigenvalues l'_i in {0, (s_i-c)(s_i+c)} and >= 0; t' >= 0; dropped columns are exactly zero
P3  stored inverse roots (l'_i + t' + eps)^(-1/p) where kept, 0 where dropped; inv_tail; the identity
    s_i^2 + b*t = l'_i + t' the code relies on
P4  the decomposed matrix is [sqrt(b)*V*diag(sqrt l) ; G]
for distributed_shampoo._fd_update_root and tearfree.sketchy._update_axis (rank 1..3, every axis).
The OCO sketches are covered by C16 (same obligations, file contracts/c16.py).
"""
from __future__ import annotations

import z3

from pyvc import ctx as C
from pyvc import harness as H
from pyvc import spec
from pyvc import sym
from pyvc import tensor as T
from pyvc.harness import Task
from pyvc.sym import SBool, SInt, SReal

PID = "C09"
DS = "precondition.distributed_shampoo"
SK = "precondition.tearfree.sketchy"

NOT_COVERED = [
    "the bracket V diag(l) V' <= C <= V diag(l) V' + tI on computed floats, exactness for rank <= k histories, anything depending on "
    "the accuracy of svd/qr: these follow from P1-P4 by the FD theorem (Ghashami et al. 2016; Feinberg et al. 2023, Lemma 1), cited as an assumption",
    "orthonormality of the kept columns (a property of the SVD output; only 'zero where dropped / rescaled singular vector where kept' is proved)",
]


def sk(ctx, name, hi, lo=0):
  i = spec.fresh_int(name)
  ctx.assume(sym.sand(i >= lo, i < hi))
  return i


def t_ds(ctx, it):
  m = it.load_module(DS)
  n = spec.fresh_int("max_size")
  r = spec.fresh_int("rank", lo=1)
  ctx.assume(r + 2 < n)
  ps = spec.fresh_int("padding_start", lo=1)
  ctx.assume(ps <= n)
  b = spec.fresh_real("decay")
  ctx.assume(sym.sand(b >= 0, b <= 1))
  p = spec.fresh_int("p", lo=1)
  ridge = spec.fresh_real("ridge_epsilon", lo=0)
  G = T.opaque("G", (n, n))
  prev = T.opaque("prev", (n, r + 2))
  t_old = prev.at((1, r + 1))
  ctx.assume(t_old >= 0)
  val, metrics = m._fd_update_root(G, p, rank=r, ridge_epsilon=ridge, error_tolerance=1e-6,
                                   relative_matrix_epsilon=False, decay=b, padding_start=T.asarray(ps), prev=prev)
  x, u, s, vt = ctx.ghost["svds"][-1]
  tag = "_fd_update_root"
  ctx.require(f"{tag}.post.shape", len(val.shape) == 2 and sym.prove(sym.sand(val.shape[0] == n, val.shape[1] == r + 2)))
  V2, l2, inv2, const2, tail2, hz2 = m._fd_low_rank_unpack(val, r)
  c = s.at((r,))
  i = sk(ctx, "i", r)
  ctx.index_terms.append(i)
  si = s.at((i,))
  rho = c * c
  t_new = b * t_old + rho
  ctx.oblige(f"{tag}.P1.escaped-mass t' = b*t + s[k]^2", tail2.item() == t_new)
  ctx.oblige(f"{tag}.P2.t'>=0", tail2.item() >= 0)
  li = l2.at((i,))
  full = (si - c) * (si + c)
  ctx.oblige(f"{tag}.P2.l'_i in {{0, (s_i-c)(s_i+c)}} and >= 0", sym.sand(li >= 0, sym.sor(li == 0, li == full)))
  ctx.oblige(f"{tag}.P2.(s_i-c)(s_i+c) = s_i^2 - rho >= 0 (s descending)", sym.sand(full == si * si - rho, full >= 0))
  row = sk(ctx, "row", n)
  ctx.oblige(f"{tag}.P2.dropped-columns-are-exactly-zero", sym.implies(li == 0, V2.at((row, i)) == 0))
  # P3 inverse roots
  alpha = -1.0 / p
  invi = inv2.at((i,))
  kept = li > 0
  ctx.oblige(f"{tag}.P3.identity s_i^2 + b*t = l'_i + t' where kept", sym.implies(kept, si * si + b * t_old == li + t_new))
  want_inv = sym.spow(si * si + b * t_old, alpha)
  ctx.oblige(f"{tag}.P3.inv_eig_i = (l'_i + t')^(-1/p) where kept, 0 where dropped",
             sym.sand(sym.implies(kept, invi == want_inv), sym.implies(sym.snot(kept), invi == 0)))
  ctx.oblige(f"{tag}.P3.inv_tail = t'^(-1/p) or 0 when t' = 0",
             const2.item() == sym.ite(t_new <= 0, 0.0, sym.spow(t_new, alpha)))
  ctx.oblige(f"{tag}.P3.has_zeros-flag iff some direction or the tail is zero (flag => identity application, C10)",
             sym.implies(sym.sor(li <= 0, t_new <= 0), T.OPS.truth(hz2.item())))
  # P4 the decomposed matrix
  j = sk(ctx, "j", r)
  row_active = row < ps
  Vp, lp = prev.at((row, j)), prev.at((n - r + j, r + 1))
  want_sk = sym.ite(sym.sand(row_active, j < ps), sym.ssqrt(b) * (Vp * sym.ssqrt(lp + ridge)), 0.0)
  ctx.assume(lp + ridge >= 0)
  ctx.oblige(f"{tag}.P4.decomposed[:, j<r] = sqrt(b) * V * sqrt(l + ridge) (zero on padding)",
             x.at((row, j)) == want_sk)
  jj = sk(ctx, "jj", n)
  ctx.oblige(f"{tag}.P4.decomposed[:, r+j] = gradient factor (zero on padding)",
             x.at((row, r + jj)) == sym.ite(sym.sand(row_active, jj < ps), G.at((row, jj)), 0.0))
  ctx.oblige(f"{tag}.P4.decomposed-shape = (n, r+n)", sym.prove(sym.sand(x.shape[0] == n, x.shape[1] == r + n)))


def mk_sketchy(rank, dim, full_k):
  """full_k: the sketch covers the axis (k = d, nothing escapes) or k < d."""

  def t(ctx, it):
    sk_ = it.load_module(SK)
    dims = tuple(spec.fresh_int(f"d{a}", lo=2) for a in range(rank))
    d = dims[dim]
    b = spec.fresh_real("second_moment_decay")
    ctx.assume(sym.sand(b >= 0, b <= 1))
    eps = spec.fresh_real("epsilon", lo=0)
    ctx.assume(eps > 0)
    rk = spec.fresh_int("rank", lo=1)
    if full_k:
      ctx.assume(rk >= d)
      k = d
    else:
      ctx.assume(rk < d)
      k = rk
    opts = sk_.Options(epsilon=eps, rank=rk, relative_epsilon=False, second_moment_decay=b, update_freq=1)
    upd = T.opaque("g", dims)
    V = T.opaque("V", (d, k))
    e = T.opaque("e", (k,))
    t_old = spec.fresh_real("tail", lo=0)
    st = sk_._AxisState(V, e, T.opaque("ie", (k,)), T.asarray(t_old), T.asarray(spec.fresh_real("inv_tail")),
                        None, None, None, None)
    new = sk_._update_axis(opts, dim, (), upd, st)
    tag = "sketchy._update_axis"
    x, u, s, vt = ctx.ghost["svds"][-1]
    q = s.shape[0]
    has_cut = sym.prove(k < q)
    no_cut = sym.prove(k >= q)
    ctx.require(f"{tag}.cut-position-decidable", has_cut or no_cut)
    c = sym.smax(s.at((k,)), 0.0) if has_cut else 0.0
    rho = c * c
    t_new = b * t_old + rho
    ctx.oblige(f"{tag}.P1.escaped-mass t' = b*t + s[k]^2 (0 beyond the spectrum)", new.tail.item() == t_new,
               detail=f"rank={rank} axis={dim} k=d:{full_k}")
    ctx.oblige(f"{tag}.P2.t'>=0", new.tail.item() >= 0)
    i = sk(ctx, "i", k)
    si = sym.smax(s.at((i,)), 0.0)
    ei = new.eigvals.at((i,))
    full = (si - c) * (si + c)
    ctx.oblige(f"{tag}.P2.stored root-eigenvalue: e'_i >= 0 and e'_i^2 = max(0, s_i - c) * (s_i + c)",
               sym.sand(ei >= 0, ei * ei == sym.smax(si - c, 0.0) * (si + c)))
    row = sk(ctx, "row", d)
    ctx.oblige(f"{tag}.P2.dropped-columns-are-exactly-zero", sym.implies(ei == 0, new.eigvecs.at((row, i)) == 0))
    ctx.oblige(f"{tag}.P2.kept-columns-are-the-singular-vectors", sym.implies(ei > 0, new.eigvecs.at((row, i)) == u.at((row, i))))
    alpha = -1.0 / (2 * rank)
    kept = ei > 0
    ctx.oblige(f"{tag}.P3.inv_eig_i = (s_i^2 + b*t + eps)^(-1/(2*ndim)) where kept, 0 where dropped",
               sym.sand(sym.implies(kept, new.inv_eigvals.at((i,)) == sym.spow(si * si + b * t_old + eps, alpha)),
                        sym.implies(sym.snot(kept), new.inv_eigvals.at((i,)) == 0)))
    ctx.oblige(f"{tag}.P3.identity s_i^2 + b*t = e'_i^2 + t' where kept", sym.implies(kept, si * si + b * t_old == ei * ei + t_new))
    ctx.oblige(f"{tag}.P3.inv_tail = (t' + eps)^(-1/(2*ndim)) or 0 when t' = 0",
               new.inv_tail.item() == sym.ite(t_new > 0, sym.spow(t_new + eps, alpha), 0.0))
    # P4: what is decomposed is R' with R'R = X'X for X = [sqrt(b) * V*diag(e) ; G_(dim)] (qr contract); check X
    qr_in = x.tags.get("qr_of_T")
    src = ctx.ghost.get("last_qr_input")
    ctx.require(f"{tag}.P4.svd-input-is-the-R-factor-of-the-stacked-matrix", src is not None)
    j = sk(ctx, "j", k)
    # src is updated.T : shape (k+M, d)
    ctx.oblige(f"{tag}.P4.stacked[:, j<k] = sqrt(b) * V[:, j] * e[j]",
               src.at((j, row)) == (V.at((row, j)) * e.at((j,))) * sym.ssqrt(b))
    # ... and the remaining rows are the mode-`dim` fibres of the gradient, each exactly once (their ORDER is irrelevant to
    # G G'; any row-major enumeration of the other axes, in any axis order, is accepted)
    if rank >= 2:
      import itertools as _it
      others = [a for a in range(rank) if a != dim]
      o = {a: sk(ctx, f"o{a}", dims[a]) for a in others}
      full_idx = tuple(row if a == dim else o[a] for a in range(rank))
      ok, first = False, None
      for perm in _it.permutations(others):
        pos = 0
        for a in perm:
          pos = pos * dims[a] + o[a]
        claim = src.at((k + pos, row)) == upd.at(full_idx)
        first = claim if first is None else first
        if sym.prove(claim):
          ok = True
          break
      ctx.oblige(f"{tag}.P4.stacked rows beyond the sketch are the mode-dim fibres of the gradient (one row per index of the other axes)",
                 True if ok else first, detail=f"rank={rank} axis={dim}")
      m_cols = 1
      for a in others:
        m_cols = m_cols * dims[a]
      ctx.oblige(f"{tag}.P4.stacked matrix has k + (number of fibres) rows", src.shape[0] == k + m_cols)

  return t


def mk_fd_factor(rank, axis):
  """distributed_shampoo.frequent_directions_update: the returned factor is R' padded with zero columns where R is the
  R-factor (qr contract: R'R = X'X) of the TRANSPOSED mode-`axis` unfolding X' of the gradient block - whatever the shape
  (tall, wide) and the rank of the block."""

  def t(ctx, it):
    m = it.load_module(DS)
    dims = tuple(spec.fresh_int(f"d{a}", lo=1) for a in range(rank))
    g = T.opaque("g", dims)
    R = m.frequent_directions_update(None, g, axis, 0.0, 0.0)
    d = dims[axis]
    ctx.oblige("frequent_directions_update.post.shape = (d, d)", sym.sand(R.shape[0] == d, R.shape[1] == d))
    src = ctx.ghost.get("last_qr_input")
    ctx.require("frequent_directions_update.post.the factor comes from a QR decomposition", src is not None)
    import itertools as _it
    others = [a for a in range(rank) if a != axis]
    row = sk(ctx, "row", d)
    if others:
      o = {a: sk(ctx, f"o{a}", dims[a]) for a in others}
      full_idx = tuple(row if a == axis else o[a] for a in range(rank))
      ok, first = False, None
      for perm in _it.permutations(others):
        pos = 0
        for a in perm:
          pos = pos * dims[a] + o[a]
        claim = src.at((pos, row)) == g.at(full_idx)
        first = claim if first is None else first
        if sym.prove(claim):
          ok = True
          break
      ctx.oblige("frequent_directions_update.post.the decomposed matrix is the transposed mode-axis unfolding of the gradient block",
                 True if ok else first, detail=f"rank={rank} axis={axis}")
    else:
      ctx.oblige("frequent_directions_update.post.the decomposed matrix is the gradient vector as one row", src.at((0, row)) == g.at((row,)))

  return t


def t_sketchy_update(ctx, it):
  """Tearfree Sketchy, the whole _update on a statistics step: EVERY axis sketch goes through _update_axis whatever the
  gradient is (in particular a zero gradient still discounts l and t by the decay): t' = b*t + s[k]^2 for every axis."""
  sk_ = it.load_module(SK)
  f = spec.fresh_int("update_freq", lo=1)
  b = spec.fresh_real("second_moment_decay")
  ctx.assume(sym.sand(b > 0, b <= 1))
  k = 2
  opts = sk_.Options(rank=k, update_freq=f, second_moment_decay=b)
  shape = (4, 3)
  p = T.opaque("p", shape)
  st0 = sk_._init(opts, p)
  count = spec.fresh_int("count", lo=0)
  ctx.assume(count % f == 0)
  axes = []
  for a, ax in enumerate(st0.sketches.axes):
    axes.append(sk_._AxisState(T.opaque(f"V{a}", ax.eigvecs.shape), T.opaque(f"e{a}", ax.eigvals.shape),
                               T.opaque(f"ie{a}", ax.inv_eigvals.shape), T.asarray(spec.fresh_real(f"tail{a}", lo=0)), T.opaque(f"it{a}", ()),
                               ax.ema_ggt, ax.svd_result_u, ax.svd_result_s, ax.inv_prev_tail))
  st = sk_._SketchyState(count=T.asarray(count), sketches=sk_._TensorState(axes))
  n_svd = len(ctx.ghost.setdefault("svds", []))
  upd, new = sk_._update(opts, T.opaque("g", shape), st)
  svds = ctx.ghost["svds"][n_svd:]
  ctx.require("sketchy._update: one decomposition per axis on a statistics step", len(svds) == len(axes))
  for a, (old, nw) in enumerate(zip(axes, new.sketches.axes)):
    x, u, s_, vt = svds[a]
    c_ = sym.smax(s_.at((k,)), 0.0)
    ctx.oblige("sketchy._update.post (statistics step): t' = b*t + s[k]^2 on every axis, for EVERY gradient (a zero gradient still decays)",
               nw.tail.item() == b * old.tail.item() + c_ * c_, detail=f"axis {a}")


def t_sketchy_off_cadence_ekfac(ctx, it):
  """Tearfree Sketchy with ekfac_svd=True (where _update_sketches runs on EVERY step, with update_sketches=False off the
  cadence): on a step with count % update_freq != 0 the sketch state (V, l, t) of every axis is unchanged (seed C09-g)."""
  sk_ = it.load_module(SK)
  f = spec.fresh_int("update_freq", lo=2)
  b = spec.fresh_real("second_moment_decay")
  ctx.assume(sym.sand(b > 0, b <= 1))
  opts = sk_.Options(rank=2, update_freq=f, second_moment_decay=b, ekfac_svd=True)
  shape = (4, 3)
  st0 = sk_._init(opts, T.opaque("p", shape))
  count = spec.fresh_int("count", lo=0)
  ctx.assume(count % f != 0)
  axes = []
  for a, ax in enumerate(st0.sketches.axes):
    axes.append(sk_._AxisState(T.opaque(f"V{a}", ax.eigvecs.shape), T.opaque(f"e{a}", ax.eigvals.shape),
                               T.opaque(f"ie{a}", ax.inv_eigvals.shape), T.asarray(spec.fresh_real(f"tail{a}", lo=0)), T.opaque(f"it{a}", ()),
                               ax.ema_ggt, T.opaque(f"su{a}", ax.svd_result_u.shape), T.opaque(f"ss{a}", ax.svd_result_s.shape),
                               T.asarray(spec.fresh_real(f"ipt{a}", lo=0))))
  st = sk_._SketchyState(count=T.asarray(count), sketches=sk_._TensorState(axes))
  upd, new = sk_._update(opts, T.opaque("g", shape), st)
  for a, (old, nw) in enumerate(zip(axes, new.sketches.axes)):
    ctx.oblige("sketchy._update.post (ekfac_svd, off the cadence): escaped mass t unchanged", nw.tail.item() == old.tail.item(), detail=f"axis {a}")
    x = T.skolem_index(old.eigvals.shape) if hasattr(T, "skolem_index") else tuple(0 for _ in old.eigvals.shape)
    ctx.oblige("sketchy._update.post (ekfac_svd, off the cadence): eigenvalues l unchanged", nw.eigvals.at(x) == old.eigvals.at(x), detail=f"axis {a}")


def tasks(tier):
  ts = [Task("DS _fd_update_root", t_ds), Task("sketchy._update on a statistics step", t_sketchy_update),
        Task("sketchy._update off the cadence with ekfac_svd", t_sketchy_off_cadence_ekfac)]
  for rank_, axis_ in ((1, 0), (2, 0), (2, 1), (3, 1)):
    ts.append(Task(f"DS frequent_directions_update[rank={rank_},axis={axis_}]", mk_fd_factor(rank_, axis_)))
  for rank in (1, 2, 3):
    for dim in range(rank):
      for full_k in (False, True):
        ts.append(Task(f"sketchy._update_axis[rank={rank},axis={dim},k=d:{full_k}]", mk_sketchy(rank, dim, full_k)))
  return ts


def main(tier):
  return H.standard_main(PID, tier, tasks(tier), not_covered=NOT_COVERED,
                         structural=["DS FD root: symbolic size, rank, padding, decay, exponent",
                                     "Sketchy: tensor rank 1..3 x every axis x {k<d, k=d}; OCO: see C16"])
