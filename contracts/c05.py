"""C05 — grafting: warm-up uses the graft step, afterwards only its norm is transplanted.

P1 (Distributed Shampoo, real `_transform_grad`, momentum and weight decay off, 7 graft types x
   lr coupling x schedule x skipped/not): from the start step on update = -lr * pg * |graft| / (|pg| + 1e-25)
   (same direction as the preconditioned gradient pg, norm |graft| |pg|/(|pg|+eps), zero when pg is zero);
   before the start step update = -lr * graft step; parameters excluded from preconditioning get the
   graft step at every step up to eps.  pg is opaque, so this holds for every preconditioner
   representation (dense, compressed, FD, quantized) and every shape.
P2 (Tearfree, real grafting.graft/_graft_with/_mask_skipped/_rmsprop/_sgd): count >= start and |base| > 0
   => out = base * |graft| / |base|; |base| = 0 => out = 0; count < start => out = graft; masked
   parameters (rank <= 1 with the rank-1 rule, or a dimension over the limit) => out = graft always;
   RMSProp accumulator and step closed forms.
"""
from __future__ import annotations

import z3

from contracts import ds_common as D
from pyvc import ctx as C
from pyvc import harness as H
from pyvc import spec
from pyvc import sym
from pyvc import tensor as T
from pyvc.harness import Task
from pyvc.sym import SBool, SInt, SReal

PID = "C05"
EPS0 = 1e-25
GR = "precondition.tearfree.grafting"
PS = "precondition.tearfree.praxis_shim"

NOT_COVERED = [
    "AdaFactor grafting (delegated to optax.adafactor, opaque)",
    "the norm identity is proved pointwise (update = pg * scalar); |update| = scalar * |pg| then follows from "
    "homogeneity of the Euclidean norm, which is cited, not proved",
]


def mk_ds(graft, dlr, sched, skip):

  def t(ctx, it):
    cfg = D.Cfg(graft, False, False, "none", dlr, sched, skip)
    S = D.Setup(ctx, it, cfg)
    ctx.assume(S.beta1 == 0)
    state = S.param_state(n_stats=0 if skip else 2)
    pg = T.opaque("pg", S.dims)
    it.call_contracts["Preconditioner.preconditioned_grad"] = lambda *a, **k: pg
    step = spec.fresh_int("step", lo=0)
    n0 = len(ctx.ghost.setdefault('reduce_calls', []))
    upd, _ = S.env["_transform_grad"](S.g, state, S.theta, T.asarray(step))
    norms = [r for r in ctx.ghost['reduce_calls'][n0:] if r.kind == "norm"]
    x = D.skolem(ctx, S.dims, "x")
    y0 = D.skolem(ctx, S.dims, "y0")
    # identify the code's norm reductions by WHAT they range over (not by position): the gradient (normalized
    # grafts), the graft step (closed form B.7, identified in C02-P1) and the preconditioned gradient
    from contracts import c02

    def find(f):
      for r in norms:
        if sym.prove(r.x.at(y0) == f(y0)):
          return r
      return None

    Ng = None
    if graft.endswith("NORMALIZED"):
      n_g = find(lambda i: S.g.at(i))
      Ng = n_g.value(()) if n_g is not None else None
    sp = c02.spec_tensors(S, cfg, step, pg, Ng) if (Ng is not None or not graft.endswith("NORMALIZED")) else None
    n_a = find(sp["a"]) if sp else None
    n_d = find(sp["d"]) if sp else None
    if n_a is None or n_d is None:
      ctx.oblige("_transform_grad(graft).the update is scaled by |graft step| / |preconditioned gradient|: both norms are "
                 "reductions over those very tensors", False,
                 detail=f"norm reductions found: {len(norms)}; over the graft step: {n_a is not None}; over the preconditioned gradient: {n_d is not None}")
      return
    a = n_a.x.at(x)       # the graft step (C02-P1 identifies it with the closed form of the graft type)
    Na, Nd = n_a.value(()), n_d.value(())
    lr_t = S.lr_at(step)
    mult = lr_t if dlr else 1.0
    u = upd.at(x)
    tag = "_transform_grad(graft)"
    warm = step < S.start
    if not skip:
      y = D.skolem(ctx, S.dims, "y")
      ctx.oblige(f"{tag}.precond-norm-ranges-over-pg", n_d.x.at(y) == pg.at(y))
      if graft != "NONE":
        ctx.oblige(f"{tag}.post.from-start-on: update*(|pg|+eps) = -lr*pg*|graft|  (direction of pg, norm of graft)",
                   sym.implies(sym.snot(warm), u * (Nd + EPS0) == -mult * pg.at(x) * Na))
        ctx.oblige(f"{tag}.post.scale-is-non-negative", Na / (Nd + EPS0) >= 0)
      else:
        ctx.oblige(f"{tag}.post.NONE: from-start-on update = -lr*pg", sym.implies(sym.snot(warm), u == -mult * pg.at(x)))
      ctx.oblige(f"{tag}.post.pg=0 => update=0 from start on", sym.implies(sym.sand(sym.snot(warm), pg.at(x) == 0), u == 0))
      ctx.oblige(f"{tag}.post.before-start: update = -lr*graft-step", sym.implies(warm, u == -mult * a))
    else:
      # skipped: |update + lr*graft| <= |lr| * eps at every step
      dev = u + mult * a
      bound = sym.ite(mult >= 0, mult, -mult) * EPS0 if isinstance(mult, sym.Sym) else abs(mult) * EPS0
      if graft != "NONE":
        ctx.oblige(f"{tag}.post.skipped-parameter: |update - (-lr*graft)| <= |lr|*eps at every step",
                   sym.sand(dev <= bound, dev >= -bound))
      else:
        ctx.oblige(f"{tag}.post.skipped-parameter: update = -lr*graft (NONE)", dev == 0)

  return t


# ---------------------------------------------------------------- Tearfree
def mk_tf(gtype, masked_by, before):

  def t(ctx, it):
    g = it.load_module(GR)
    ps = it.load_module(PS)
    start = spec.fresh_int("start_preconditioning_step", lo=0)
    decay = spec.fresh_real("second_moment_decay")
    ctx.assume(sym.sand(decay > 0, decay <= 1))
    eps = spec.fresh_real("epsilon", lo=0)
    limit = spec.fresh_int("skip_any_dim_gt", lo=1)
    rank = 1 if masked_by == "rank1" else 2
    dims = tuple(spec.fresh_int(f"d{a}", lo=1) for a in range(rank))
    if masked_by == "dim":
      ctx.assume(dims[0] > limit)
    elif masked_by == "no":
      ctx.assume(sym.sand(*[d <= limit for d in dims]))
    opts = g.Options(grafting_type=g.GraftingType[gtype], second_moment_decay=decay,
                     start_preconditioning_step=start, epsilon=eps,
                     skip_preconditioning_any_dim_gt=limit, skip_preconditioning_rank1=True)
    base = T.opaque("base", dims)
    seen = []

    def dir_update(updates, state, params=None):
      seen.append(updates)
      if g._masked(updates):
        return updates, state
      return base, state

    direction = ps.ShardedGradientTransformation(lambda p: "dstate", dir_update, None)
    tx = g.graft(opts, direction)
    grad = T.opaque("grad", dims)
    count = spec.fresh_int("count", lo=0)
    if before:
      ctx.assume(count < start)
    else:
      ctx.assume(count >= start)
    acc = T.opaque("acc", dims)
    norm_state = g.RMSPropAccumulator(acc=acc) if gtype == "RMSPROP" else tx.init(grad).norm
    state = g.GraftingState(count=T.asarray(count), direction="dstate", norm=norm_state)
    n0 = len(ctx.ghost.setdefault('reduce_calls', []))
    out, new_state = tx.update(grad, state, grad)
    x = D.skolem(ctx, dims, "x")
    tag = "grafting._graft_with.update_fn"
    # closed form of the graft step
    gx = grad.at(x)
    if gtype == "SGD":
      graft = gx
    else:
      acc_new = sym.ite(decay == 1, gx * gx + acc.at(x), gx * gx * (1 - decay) + decay * acc.at(x))
      ctx.oblige("grafting._rmsprop.update_fn.post.accumulator' = decay*acc + (1-decay)*g^2 (sum when decay=1)",
                 new_state.norm.acc.at(x) == acc_new)
      ctx.assume(acc.at(x) >= 0)
      ctx.assume(acc_new + eps > 0)
      graft = gx * (1.0 / sym.ssqrt(acc_new + eps))
    ctx.oblige(f"{tag}.post.count+1", new_state.count.item() == count + 1)
    is_masked = masked_by != "no"
    ctx.oblige(f"{tag}.direction-sees-a-masked-leaf-exactly-for-excluded-parameters",
               len(seen) == 1 and g._masked(seen[0]) == is_masked)
    if is_masked or before:
      ctx.oblige(f"{tag}.post.graft-step-itself (warm-up or excluded parameter)", out.at(x) == graft,
                 detail=f"type={gtype} masked={masked_by} before_start={before}")
    else:
      norms = [r for r in ctx.ghost['reduce_calls'][n0:] if r.kind == "norm"]
      ctx.require(f"{tag}.two-norms", len(norms) == 2)
      nb = [r for r in norms if sym.prove(r.x.at(x) == base.at(x))]
      ng = [r for r in norms if r not in nb]
      ctx.require(f"{tag}.norms-range-over-base-and-graft", len(nb) == 1 and len(ng) == 1)
      y = D.skolem(ctx, dims, "y")
      gy = grad.at(y)
      if gtype == "SGD":
        graft_y = gy
      else:
        acc_y = sym.ite(decay == 1, gy * gy + acc.at(y), gy * gy * (1 - decay) + decay * acc.at(y))
        ctx.assume(acc_y + eps > 0)
        graft_y = gy * (1.0 / sym.ssqrt(acc_y + eps))
      ctx.oblige(f"{tag}.graft-norm-ranges-over-the-graft-step", ng[0].x.at(y) == graft_y)
      ctx.oblige(f"{tag}.base-norm-ranges-over-the-direction", nb[0].x.at(y) == base.at(y))
      Nb, Ng = nb[0].value(()), ng[0].value(())
      ctx.oblige(f"{tag}.post.|base|>0: out*|base| = base*|graft| (direction of base, norm of graft)",
                 sym.implies(Nb > 0, out.at(x) * Nb == base.at(x) * Ng))
      ctx.oblige(f"{tag}.post.|base|=0: out = 0", sym.implies(Nb == 0, out.at(x) == 0))

  return t


def mk_tf_tree(gtype):
  """A parameter TREE with two preconditioned leaves: each leaf's update has the direction of ITS preconditioned gradient
  and the norm of ITS graft step (the norms are per parameter, not global)."""

  def t(ctx, it):
    g = it.load_module(GR)
    ps = it.load_module(PS)
    start = spec.fresh_int("start_preconditioning_step", lo=0)
    decay = spec.fresh_real("second_moment_decay")
    ctx.assume(sym.sand(decay > 0, decay <= 1))
    eps = spec.fresh_real("epsilon", lo=0)
    limit = spec.fresh_int("skip_any_dim_gt", lo=1)
    shapes = {"a": tuple(spec.fresh_int(f"a{k}", lo=1) for k in range(2)), "b": tuple(spec.fresh_int(f"b{k}", lo=1) for k in range(2))}
    for sh_ in shapes.values():
      ctx.assume(sym.sand(*[d <= limit for d in sh_]))
    opts = g.Options(grafting_type=g.GraftingType[gtype], second_moment_decay=decay, start_preconditioning_step=start, epsilon=eps,
                     skip_preconditioning_any_dim_gt=limit, skip_preconditioning_rank1=True)
    from pyvc import deps as _deps
    base = {k: _deps.register_input(T.opaque("base_" + k, sh_), "base_" + k) for k, sh_ in shapes.items()}
    direction = ps.ShardedGradientTransformation(lambda p: "dstate", lambda u, s_, p=None: (base, s_), None)
    tx = g.graft(opts, direction)
    grad = {k: _deps.register_input(T.opaque("grad_" + k, sh_), "grad_" + k) for k, sh_ in shapes.items()}
    count = spec.fresh_int("count", lo=0)
    ctx.assume(count >= start)
    if gtype == "RMSPROP":
      acc = {k: _deps.register_input(T.opaque("acc_" + k, sh_), "acc_" + k) for k, sh_ in shapes.items()}
      norm_state = g.RMSPropAccumulator(acc=acc)
    else:
      norm_state = tx.init(grad).norm
    state = g.GraftingState(count=T.asarray(count), direction="dstate", norm=norm_state)
    n0 = len(ctx.ghost.setdefault("reduce_calls", []))
    out, _ = tx.update(grad, state, grad)
    norms = [r for r in ctx.ghost["reduce_calls"][n0:] if r.kind == "norm"]
    tag = "grafting._graft_with.update_fn[tree]"
    for k, sh_ in shapes.items():
      x = D.skolem(ctx, sh_, "x" + k)
      y = D.skolem(ctx, sh_, "y" + k)
      gy = grad[k].at(y)
      if gtype == "SGD":
        graft_y = gy
      else:
        acc_y = sym.ite(decay == 1, gy * gy + acc[k].at(y), gy * gy * (1 - decay) + decay * acc[k].at(y))
        ctx.assume(acc_y + eps > 0)
        graft_y = gy * (1.0 / sym.ssqrt(acc_y + eps))
      from pyvc import deps

      def reads_of(r):
        try:
          return {nm for nm, _ in deps.collect(r.x.at(y)).items}
        except Exception:  # pylint: disable=broad-except
          return {"?"}

      same_shape = lambda r: len(r.x.shape) == len(sh_) and all(sym.prove(p_ == q_) for p_, q_ in zip(r.x.shape, sh_))
      cand = [r for r in norms if same_shape(r)]
      nb = [r for r in cand if reads_of(r) == {"base_" + k}]
      ng = [r for r in cand if reads_of(r) and reads_of(r) <= {"grad_" + k, "acc_" + k} and "grad_" + k in reads_of(r)]
      if not nb or not ng:
        ctx.oblige(f"{tag}.leaf {k}: the update is scaled by the norm of ITS graft step over the norm of ITS preconditioned gradient "
                   "(norm reductions over exactly those two tensors)", False, detail=f"norm reductions: {len(norms)}")
        continue
      ctx.oblige(f"{tag}.leaf {k}: graft-norm ranges over the leaf's graft step", ng[0].x.at(y) == graft_y)
      ctx.oblige(f"{tag}.leaf {k}: base-norm ranges over the leaf's preconditioned gradient", nb[0].x.at(y) == base[k].at(y))
      Nb, Ng = nb[0].value(()), ng[0].value(())
      ctx.oblige(f"{tag}.leaf {k}: |base|>0: out*|base| = base*|graft| with the leaf's OWN norms",
                 sym.implies(Nb > 0, out[k].at(x) * Nb == base[k].at(x) * Ng))

  return t


def tasks(tier):
  ts = []
  for graft in D.GRAFTS:
    for dlr in (False, True):
      for sched in (False, True):
        for skip in (False, True):
          ts.append(Task(f"DS graft[{graft},dlr={int(dlr)},sched={int(sched)},skip={int(skip)}]", mk_ds(graft, dlr, sched, skip)))
  for gt in ("SGD", "RMSPROP"):
    ts.append(Task(f"tearfree graft on a two-leaf tree[{gt}]", mk_tf_tree(gt)))
  for gt in ("SGD", "RMSPROP"):
    for masked in ("no", "rank1", "dim"):
      for before in (False, True):
        ts.append(Task(f"tearfree graft[{gt},masked={masked},before_start={before}]", mk_tf(gt, masked, before)))
  # the graft step ITSELF with beta2 == 1 (w2 = 1, nu' = nu + g^2): shared with C02-P1 (seed C05-g)
  from contracts import c02
  ts += [t for t in c02.tasks(tier) if t.name.startswith("_transform_grad[") and t.name.endswith(",beta2=1]")]
  return ts


def main(tier):
  return H.standard_main(PID, tier, tasks(tier), not_covered=NOT_COVERED,
                         structural=["DS: 7 graft types x lr coupling x schedule x skipped/not, pg opaque",
                                     "Tearfree: {SGD, RMSPROP} x {not masked, rank-1 rule, dimension limit} x {before, from start}"])
