"""C17 — Sketchy memory reallocation respects the budget.

The real create_redist_dict is executed for ONE symbolic group: size n >= 1, keys renamed to
their position in sorted order, opaque scores, symbolic dim >= 2 and base rank >= 1.  The helper
functions that only do I/O / string / jnp bookkeeping (layers_and_axes, create_groups, score_fn,
create_redist, alloc_fn) are replaced by contracts; the per-group body — rd, is_outlier, grp_info,
both allocation loops, the code's own assertions — is the real AST.

Scores, the running total and every float expression are OPAQUE reals: nothing is assumed about
float arithmetic (rd() returns *some* integer).  So the proof holds for floats as well, provided
int(x // 1) does not raise (scores finite and < 2^100).
"""
from __future__ import annotations

import z3

from pyvc import ctx as C
from pyvc import harness as H
from pyvc import interp as I
from pyvc import seq as S
from pyvc import spec
from pyvc import sym
from pyvc.harness import Task
from pyvc.sym import SBool, SInt, SReal

PID = "C17"
RA = "precondition.tearfree.reallocation"
Q = "create_redist_dict"

NOT_COVERED = [
    "score_fn (jnp reductions over checkpoints) beyond 'scores are finite reals' as a precondition",
    "float32 overflow of score products to inf (int(inf) raises); scores assumed < 2^100",
    "the loop over groups is verified under a loop contract for a symbolic number of groups, where redist_dict is framed by alloc_fn's contract; the REAL layers_and_axes / create_groups / create_redist / alloc_fn are executed end to end (post-condition on the returned dictionary) on three concrete layer sets only (1 axis; 2 axes of one dim; 2 layers with free dims) - larger sets exceed the path budget",
    "the end-to-end tasks follow the iteration order CPython gives the real set of layer names in the checking process (string hashing is not pinned, so the obligation count varies slightly between runs); the one-symbolic-group task is order-independent",
]


def t_group(ctx, it):
  m = it.load_module(RA)
  n = spec.fresh_int("n", lo=1)
  dim = spec.fresh_int("dim", lo=2)
  rank = spec.fresh_int("sketchy_rank", lo=1)
  score_f = z3.Function("score", z3.IntSort(), z3.RealSort())

  class ScoreDict:

    def __getitem__(self, k):
      v = SReal(score_f(sym._as_int_z(k)))
      ctx.assume(v >= 0)
      return v

  group = S.SSeq(n, lambda k: k, "group")
  # scores are given in descending order (sorted() contract)
  i0 = spec.fresh_int("i_ord")
  ctx.assume(SBool(z3.ForAll([i0.z], z3.Implies(z3.And(i0.z >= 0, i0.z + 1 < n.z),
                                                  score_f(i0.z) >= score_f(i0.z + 1)))))
  captured = {}

  it.call_contracts["layers_and_axes"] = lambda *a: (set(), 2)
  # a SYMBOLIC number of groups: the loop over groups runs under a loop contract, its body is executed for an arbitrary
  # group (dimension `dim`, members `group`); anything the body carries from one group to the next must be havoced by
  # the contract (the engine refuses to read a loop-assigned variable that the contract left at its pre-loop value)
  n_groups = spec.fresh_int("number_of_groups", lo=1)

  class GroupDict:

    def _pyvc_symlen(self):
      return n_groups

    def _pyvc_at(self, k):
      return dim

    def _pyvc_sorted(self, key, reverse):
      return self

    def __getitem__(self, d):
      return group

  it.call_contracts["create_groups"] = lambda *a: GroupDict()
  it.loop_contracts[(Q, 0)] = I.LoopContract(lambda env, k: True, lambda env, k: env.__setitem__("redist_dict", {}),
                                             "create_redist_dict.groups")
  it.call_contracts["score_fn"] = lambda *a: ScoreDict()
  it.call_contracts[Q + ".<locals>.create_redist"] = lambda *a: {}

  def alloc_contract(interp, fn, args, kwargs):
    redist, grp, realloc = args
    captured["realloc"] = realloc
    # post-condition of one group, at the point where its allocation is committed
    ctx.oblige("create_redist_dict.post.every-key-of-the-group-gets-a-rank", realloc.size == n)
    ctx.oblige("create_redist_dict.post.rank-in-[1,dim]", elems_ok(realloc))
    ctx.oblige("create_redist_dict.post.group-sum<=group-size*base-rank", realloc.total <= n * rank)
    return redist

  it.call_contracts[Q + ".<locals>.alloc_fn"] = alloc_contract
  R0 = n * rank - n

  def fresh_map(size, name):
    f = z3.Function(ctx.fresh_name(name), z3.IntSort(), z3.IntSort())

    def vals(j):
      v = SInt(f(sym._as_int_z(j)))
      jj = j if isinstance(j, sym.Sym) else SInt(z3.IntVal(j))
      ctx.assume(sym.implies(sym.sand(jj >= 0, jj < size), sym.sand(v >= 1, v <= dim)))
      return v

    return S.SMap(size, vals, SInt(ctx.fresh_int(name + "_sum")))

  def elems_ok(mp):
    j = spec.fresh_int("j_el")
    return sym.implies(sym.sand(j >= 0, j < mp.size), sym.sand(mp.vals(j) >= 1, mp.vals(j) <= dim))

  # loop 1: proportional allocation (k = number of processed keys)
  def havoc1(env, k):
    env["realloc"] = fresh_map(k, "realloc")
    env["group_resource"] = spec.fresh_int("group_resource")
    env["total_score"] = spec.fresh_real("total_score")

  def inv1(env, k):
    mp = env["realloc"]
    gr = env["group_resource"]
    if isinstance(mp, dict):
      return sym.sand(len(mp) == 0, k == 0, gr == R0, gr >= 0)
    return sym.sand(gr >= 0, mp.size == k, elems_ok(mp), mp.total <= k + (R0 - gr))

  it.loop_contracts[(Q, 1)] = I.LoopContract(inv1, havoc1, "create_redist_dict.loop1")

  # loop 2: the code's own per-key assertion loop (no state change)
  it.loop_contracts[(Q, 2)] = I.LoopContract(lambda env, k: True, lambda env, k: None, "create_redist_dict.loop2")

  # loop 3: leftover distribution
  budget = n * rank

  def havoc3(env, k):
    env["realloc"] = fresh_map(n, "realloc3")
    env["extra"] = spec.fresh_int("extra")

  def inv3(env, k):
    mp = env["realloc"]
    return sym.sand(mp.size == n, elems_ok(mp), env["extra"] >= 1, mp.total + env["extra"] <= budget)

  it.loop_contracts[(Q, 3)] = I.LoopContract(inv3, havoc3, "create_redist_dict.loop3")

  states = [{"inner_state": {"0": {"direction": {"1": {"sketches": {}}}}}}]
  m.create_redist_dict("", [], "sketch_trace", False, rank, states=states)
  ctx.oblige("create_redist_dict.non-vacuity: the arbitrary group's allocation was committed on some path", True)


def t_create_groups(ctx, it):
  """create_groups partitions the axes by dimension (concrete small instances, symbolic dims)."""
  m = it.load_module(RA)
  d1 = spec.fresh_int("d1", lo=2)
  d2 = spec.fresh_int("d2", lo=2)
  for dims in ([d1], [d1, d1], [d1, d2], [d1, d2, d1]):
    sketches = {f"layer{i}": {"axes": {"0": {"dim": d}}} for i, d in enumerate(dims)}
    names = {f"layer{i}/axes/0" for i in range(len(dims))}
    g = m.create_groups(sketches, names)
    total = sum(len(v) for v in g.values())
    ctx.oblige("create_groups.post.every-axis-in-exactly-one-group", total == len(dims))
    for key, members in g.items():
      for nm in members:
        dd = dims[int(nm[5])]
        ctx.oblige("create_groups.post.group-key-is-the-axis-dimension", dd == key)


def _t_end_to_end(layout):
  """The WHOLE real create_redist_dict — layers_and_axes, create_groups, create_redist, alloc_fn and the group loop,
  none of them contracted — on a concrete layer set with symbolic axis dimensions, base rank and scores.  Only score_fn
  (jnp reductions) is a contract: a non-negative opaque real per axis.  The post-condition is the property statement on
  the RETURNED dictionary: every sketched axis carries an integer in [1, its dim] at its own (layer, axis) slot, and for
  every axis the ranks of the axes that share its dimension sum to at most (their number) * base rank."""

  def run(ctx, it):
    m = it.load_module(RA)
    rank = spec.fresh_int("sketchy_rank", lo=1)
    dims = {}
    pool = [spec.fresh_int("d%d" % i, lo=2) for i in range(3)]
    sketches = {}
    axes = []
    for layer, axdims in layout:
      sketches[layer] = {"axes": {}}
      for a, di in enumerate(axdims):
        sketches[layer]["axes"][str(a)] = {"dim": pool[di], "eigvals": 0}
        dims[(layer, a)] = pool[di]
        axes.append((layer, a))
    states = [{"inner_state": {"0": {"direction": {"1": {"sketches": sketches}}}}}]
    scores = {}
    for layer, a in axes:
      v = spec.fresh_real("score_%s_%d" % (layer, a))
      ctx.assume(v >= 0)
      scores["%s/axes/%d" % (layer, a)] = v
    it.call_contracts["score_fn"] = lambda *a_, **k_: dict(scores)
    out = m.create_redist_dict("", [], "sketch_trace", False, rank, states=states)
    ctx.oblige("create_redist_dict.e2e.post.one-entry-per-layer", len(out) == len(layout))
    got = {}
    for layer, a in axes:
      r = out[layer][a]
      got[(layer, a)] = r
      ctx.oblige("create_redist_dict.e2e.post.rank-in-[1,dim]-at-its-own-slot", sym.sand(r >= 1, r <= dims[(layer, a)]))
    for ax in axes:
      tot = 0
      cnt = 0
      for bx in axes:
        same = dims[bx] == dims[ax]
        tot = tot + sym.ite(same, got[bx], 0)
        cnt = cnt + sym.ite(same, 1, 0)
      ctx.oblige("create_redist_dict.e2e.post.group-sum<=group-size*base-rank", tot <= cnt * rank)

  return run


# not run: these two exceed 600 s (path explosion over the tie-breaking of opaque float comparisons)
E2E_LAYOUTS_SLOW = [
    ("one layer, two axes, dims free", [("l0", [0, 1])]),
    ("two layers sharing a dim", [("l0", [0, 1]), ("l1", [0, 2])]),
]


E2E_LAYOUTS = [("one layer, one axis", [("l0", [0])]), ("one layer, two axes of one dim", [("l0", [0, 0])]), ("two layers, one axis each, dims free", [("l0", [0]), ("l1", [1])])]


def tasks(tier):
  ts = [Task("create_redist_dict[one symbolic group]", t_group), Task("create_groups", t_create_groups)]
  for nm, lay in E2E_LAYOUTS:
    ts.append(Task("create_redist_dict[end to end: %s]" % nm, _t_end_to_end(lay)))
  return ts


def main(tier):
  return H.standard_main(PID, tier, tasks(tier), not_covered=NOT_COVERED,
                         structural=["one symbolic group: size n, dim, base rank, scores all symbolic", "end to end on 3 concrete layer sets (dims, base rank, scores symbolic): real layers_and_axes, create_groups, create_redist, alloc_fn"])
