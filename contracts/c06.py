"""C06 — merging, blocking, blockifying and padding are lossless and self-consistent.

Contracts (DESIGN 7/C06, Appendix B.1-B.4) on the real functions:
  distributed_shampoo.merge_small_dims, BlockPartitioner.__init__,
  Preconditioner.{__init__, should_precondition_dims, shapes_for_preconditioners,
  exponent_for_preconditioner, _preconds_for_grad}, tearfree.reshaper._derive_shapes,
  _merge/_unmerge, tearfree.shampoo._blocks_metadata/_blockify/_deblockify/_split_exclusively.
"""
from __future__ import annotations

import itertools

import z3

from pyvc import ctx as C
from pyvc import harness as H
from pyvc import interp as I
from pyvc import seq as S
from pyvc import spec
from pyvc import sym
from pyvc import tensor as T
from pyvc.harness import Task
from pyvc.sym import SBool, SInt

PID = "C06"
DS = "precondition.distributed_shampoo"
RS = "precondition.tearfree.reshaper"
TS = "precondition.tearfree.shampoo"

STRUCTURAL = [
    "merge_small_dims: symbolic rank (loop invariant), symbolic dims and limit",
    "BlockPartitioner.__init__: rank 0..5, symbolic dims and block size, symbolic number of blocks",
    "Preconditioner bookkeeping: rank 1..3 x 3 preconditioner types x {1,2[,3]} blocks per axis x compression on/off, symbolic dims/block size/compression rank",
    "reshaper: rank 0..4 x {block_size=0, symbolic block size>=2}, symbolic dims and merge limit",
    "tearfree shampoo blocks: rank 0..5 x every placement of 0,1,2 large axes, symbolic dims / block size / block counts",
]

NOT_COVERED = [
    "identity preconditioning is proved at small concrete shapes (rank 1..4, with and without blocks, 3 preconditioner types), entries symbolic",
    "partition/merge_partitions round trip for a symbolic NUMBER of blocks (S5); proved for 1..3 blocks per axis with symbolic dims, bounded stand-in beyond",
    "termination of the loops",
]


# ---------------------------------------------------------------- P1 merge_small_dims
def install_merge_invariant(it, shape, max_dim):
  """Loop 0 of merge_small_dims, k = number of processed dims (DESIGN B.1)."""

  def havoc(env, k):
    rs = spec.fresh_seq(
        "rs", each=lambda v, j: sym.sand(v > 1, sym.sor(v <= max_dim, _member(v, shape, k))))
    env["resulting_shape"] = S.SList(rs)
    env["product"] = spec.fresh_int("product")

  def inv(env, k):
    rs = env["resulting_shape"]
    product = env["product"]
    return sym.sand(
        spec.sprod(rs) * product == spec.prefix_prod(shape, k),
        product >= 1,
        spec.slen(rs) <= k,
        sym.sor(product <= max_dim, product == 1, _member(product, shape, k)),
        spec.forall_elems(rs, lambda v, j: sym.sand(
            v > 1, sym.sor(v <= max_dim, _member(v, shape, k)))),
    )

  it.loop_contracts[("merge_small_dims", 0)] = I.LoopContract(inv, havoc, "merge_small_dims.loop0")


def _member(v, shape, k):
  """∃w<k. v == shape[w]"""
  return spec.exists_index(0, k, lambda w: v == shape._pyvc_at(w))


def t_merge_small_dims(ctx, it):
  m = it.load_module(DS)
  shape = spec.fresh_seq("shape", each=lambda v, k: v >= 1)
  max_dim = spec.fresh_int("max_dim")
  install_merge_invariant(it, shape, max_dim)
  n = shape.n
  result = m.merge_small_dims(shape, max_dim)
  # lemma: the all-ones early exit.  The `all` reduction ranges over shape[k]==1;
  # Lean lemma prod_eq_one (lemmas/Spec.lean): all ones => product is one.
  for red in ctx.reductions:
    if red.kind == "all":
      k = spec.fresh_int("k_lem")
      elem = T.OPS.truth(red.x.at((k,)))
      ctx.oblige("merge_small_dims.lemma-premise(all ranges over shape[k]==1)",
                 sym.implies(sym.sand(k >= 0, k < n), elem == (shape._pyvc_at(k) == 1)),
                 kind="lemma-premise")
      ctx.fact(sym.implies(red.value(()), spec.prefix_prod(shape, n) == 1),
               "Lean Spec.prod_eq_one_of_all_one: all elements 1 => product 1")
  total = spec.prefix_prod(shape, n)
  ctx.oblige("merge_small_dims.post.product-preserved", spec.sprod(result) == total)
  is_one = (result == [1]) if isinstance(result, S.SList) else (result == [1])
  ctx.oblige("merge_small_dims.post.[1]-or-all-entries>1",
             sym.sor(is_one, spec.forall_elems(result, lambda v, j: v > 1)))
  ctx.oblige("merge_small_dims.post.empty-shape-gives-empty",
             sym.implies(n == 0, spec.slen(result) == 0))
  ctx.oblige("merge_small_dims.post.entries<=max_dim-or-a-single-input-dim",
             sym.sor(is_one, spec.forall_elems(
                 result, lambda v, j: sym.sor(v <= max_dim, _member(v, shape, n)))))


# ---------------------------------------------------------------- P2 BlockPartitioner.__init__
def sym_param(rank, name="d", lo=1):
  dims = tuple(spec.fresh_int(f"{name}{i}", lo=lo) for i in range(rank))
  return T.opaque("param", dims), dims


def check_partitioner(ctx, bp, dims, block_size, tag="BlockPartitioner.__init__"):
  """Post of B.2 for every axis; returns per-axis (is_split, q)."""
  sizes_all = bp._split_sizes
  ctx.oblige(f"{tag}.post.one-size-vector-per-axis", len(sizes_all) == len(dims))
  splits = {ax: ind for ax, ind in bp._splits}
  axes_in_order = [ax for ax, _ in bp._splits]
  ctx.oblige(f"{tag}.post.splits-ordered-by-axis", axes_in_order == sorted(axes_in_order))
  info = []
  for i, d in enumerate(dims):
    sizes = sizes_all[i]
    n = sizes.shape[0]
    j = spec.fresh_int(f"j{i}")
    inr = sym.sand(j >= 0, j < n)
    v = sizes.at((j,))
    split = sym.sand(0 < block_size, block_size < d)
    if i in splits:
      ind = splits[i]
      q = ind.shape[0]
      ctx.oblige(f"{tag}.post.axis{i}.split-iff-0<block<d", split)
      ctx.oblige(f"{tag}.post.axis{i}.at-least-one-cut", q >= 1)
      ctx.oblige(f"{tag}.post.axis{i}.len(sizes)=cuts+1", n == q + 1)
      ctx.oblige(f"{tag}.post.axis{i}.sizes-in-[1,block]", sym.implies(inr, sym.sand(v >= 1, v <= block_size)))
      ctx.oblige(f"{tag}.post.axis{i}.all-but-last-equal-block", sym.implies(sym.sand(j >= 0, j < q), v == block_size))
      last = sizes.at((q,))
      ctx.oblige(f"{tag}.post.axis{i}.sizes-sum-to-d (q*block+last=d; List.sum_replicate)",
                 q * block_size + last == d)
      jj = spec.fresh_int(f"jj{i}")
      cut = ind.at((jj,))
      ctx.oblige(f"{tag}.post.axis{i}.cuts-at-multiples-strictly-inside",
                 sym.implies(sym.sand(jj >= 0, jj < q),
                             sym.sand(cut == (jj + 1) * block_size, cut > 0, cut < d)))
      info.append((True, q))
    else:
      ctx.oblige(f"{tag}.post.axis{i}.unsplit-iff-not(0<block<d)", sym.snot(split))
      ctx.oblige(f"{tag}.post.axis{i}.sizes=[d]", sym.sand(n == 1, sizes.at((0,)) == d))
      info.append((False, 0))
  return info


def mk_partitioner(rank):

  def t(ctx, it):
    m = it.load_module(DS)
    param, dims = sym_param(rank)
    bs = spec.fresh_int("block_size")
    bp = m.BlockPartitioner(param, bs)
    check_partitioner(ctx, bp, dims, bs)
    ctx.oblige("BlockPartitioner.__init__.post.shape-recorded", bp._shape == param.shape
               if not isinstance(bp._shape, tuple) else all(a is b for a, b in zip(bp._shape, param.shape)))
    ss = bp.split_sizes()
    ctx.oblige("BlockPartitioner.split_sizes.post.returns-recorded-sizes", ss is bp._split_sizes)

  return t


# ---------------------------------------------------------------- P3 Preconditioner bookkeeping
def expected_should(ptype, rank, PT):
  if ptype == PT.ALL or rank <= 1:
    return [True] * rank
  if ptype == PT.INPUT:
    return [True] * (rank - 1) + [False]
  return [False] * (rank - 1) + [True]


def mk_preconditioner(rank, ptype_name, blocks, comp):
  """blocks: tuple per axis of number of blocks (1..3); comp: compression rank (0 or symbolic)."""

  def t(ctx, it):
    m = it.load_module(DS)
    PT = m.PreconditionerType
    ptype = PT[ptype_name]
    param, dims = sym_param(rank)
    bs = spec.fresh_int("block_size", lo=1)
    for d, nb in zip(dims, blocks):
      if nb == 1:
        ctx.assume(d <= bs)
      else:
        ctx.assume(sym.sand(d > (nb - 1) * bs, d <= nb * bs))
    cr = 0 if not comp else spec.fresh_int("compression_rank")
    if comp:
      ctx.assume(cr != 0)
    pre = m.Preconditioner(param, bs, 4096, False, ptype, cr)
    tag = "Preconditioner"
    ctx.oblige(f"{tag}.__init__.post.transformed=original(no merge)",
               all(a is b for a, b in zip(pre._transformed_shape, param.shape)))
    should = pre.should_precondition_dims()
    exp = expected_should(ptype, rank, PT)
    ctx.oblige(f"{tag}.should_precondition_dims.post(B.4)", list(should) == exp)
    nprec = sum(exp)
    expo = pre.exponent_for_preconditioner()
    ctx.oblige(f"{tag}.exponent_for_preconditioner.post=2*#preconditioned", expo == 2 * nprec)
    shapes = pre.shapes_for_preconditioners()
    nblocks = 1
    for nb in blocks:
      nblocks *= nb
    ctx.oblige(f"{tag}.shapes_for_preconditioners.post.count=#blocks*#preconditioned-axes",
               len(shapes) == nblocks * nprec)
    # k-th shape: itertools.product order (last axis fastest), preconditioned axes in order
    k = 0
    ok = []
    for combo in itertools.product(*[range(nb) for nb in blocks]):
      for ax in range(rank):
        if not exp[ax]:
          continue
        nb = blocks[ax]
        piece = combo[ax]
        size = bs if piece < nb - 1 else dims[ax] - (nb - 1) * bs
        if nb == 1:
          size = dims[ax]
        sh = shapes[k]
        pd = m._precond_dim(cr, size) if comp else size
        ok.append(sym.sand(sh[0] == size, sh[1] == pd))
        k += 1
    ctx.oblige(f"{tag}.shapes_for_preconditioners.post.kth-shape=[s,precond_dim(s)]-in-product-order",
               sym.sand(*ok) if ok else True)
    # _preconds_for_grad: returns exactly `rank` slots, the preconditioned axes get their own root
    roots = [object() for _ in range(nblocks * nprec)]
    for b in range(nblocks):
      got = pre._preconds_for_grad(roots, rank=rank, start=b * nprec, end=(b + 1) * nprec)
      want = []
      c_ = 0
      for ax in range(rank):
        if exp[ax]:
          want.append(roots[b * nprec + c_])
          c_ += 1
        else:
          want.append(None)
      ctx.oblige(f"{tag}._preconds_for_grad.post.slot-j-holds-root-of-axis-j",
                 len(got) == rank and all(g is w for g, w in zip(got, want)))

  return t


def mk_partition_order(rank, blocks):
  """partition(x)[k] is the k-th box in itertools.product order (the order shapes_for_preconditioners announces and
  the statistics / preconditioner lists are indexed by), and merge_partitions inverts partition."""

  def t(ctx, it):
    m = it.load_module(DS)
    param, dims = sym_param(rank)
    bs = spec.fresh_int("block_size", lo=1)
    for d, nb in zip(dims, blocks):
      if nb == 1:
        ctx.assume(d <= bs)
      else:
        ctx.assume(sym.sand(d > (nb - 1) * bs, d <= nb * bs))
    pre = m.Preconditioner(param, bs, 4096, False, m.PreconditionerType.ALL, 0)
    parts = pre._partitioner.partition(param)
    shapes = pre.shapes_for_preconditioners()
    nblocks = 1
    for nb in blocks:
      nblocks *= nb
    ctx.oblige("BlockPartitioner.partition.post.count=#blocks", len(parts) == nblocks)
    for k, combo in enumerate(itertools.product(*[range(nb) for nb in blocks])):
      blk = parts[k]
      sizes = [dims[ax] if blocks[ax] == 1 else (bs if combo[ax] < blocks[ax] - 1 else dims[ax] - (blocks[ax] - 1) * bs)
               for ax in range(rank)]
      ctx.oblige("BlockPartitioner.partition.post.kth-block-has-the-kth-announced-shape (product order, last axis fastest)",
                 sym.sand(*[blk.shape[ax] == sizes[ax] for ax in range(rank)],
                          *[shapes[k * rank + ax][0] == blk.shape[ax] for ax in range(rank)]), detail=f"block {k} = {combo}")
      idx = skolem_index(ctx, tuple(sizes), name=f"b{k}_")
      src = tuple(i + combo[ax] * bs for ax, i in enumerate(idx))
      ctx.oblige("BlockPartitioner.partition.post.kth-block-is-the-kth-box-of-the-tensor", blk.at(idx) == param.at(src),
                 detail=f"block {k} = {combo}")
    back = pre._partitioner.merge_partitions(parts)
    ctx.oblige("BlockPartitioner.merge_partitions.post.shape", sym.sand(*[a == b for a, b in zip(back.shape, dims)]))
    i = skolem_index(ctx, dims, name="m")
    ctx.oblige("BlockPartitioner.merge_partitions(partition(x)) = x pointwise", back.at(i) == param.at(i))
    # merge of arbitrary blocks of the announced shapes puts block k back at box k (what the update relies on)
    fresh = [T.opaque(f"blk{k}", parts[k].shape) for k in range(nblocks)]
    merged = pre._partitioner.merge_partitions(fresh)
    for k, combo in enumerate(itertools.product(*[range(nb) for nb in blocks])):
      idx = skolem_index(ctx, fresh[k].shape, name=f"f{k}_")
      dst = tuple(i_ + combo[ax] * bs for ax, i_ in enumerate(idx))
      ctx.oblige("BlockPartitioner.merge_partitions.post.kth-block-lands-in-the-kth-box", merged.at(dst) == fresh[k].at(idx),
                 detail=f"block {k} = {combo}")

  return t


def mk_identity(shape, block_size, ptype_name):
  """'preconditioning with identity matrices returns the gradient unchanged': the real preconditioned_grad (partition,
  per-block axis application incl. the roll of non-preconditioned axes, merge) on a tensor with symbolic entries and
  identity preconditioners of the announced shapes - pointwise equality at every index (small concrete dims)."""

  def t(ctx, it):
    m = it.load_module(DS)
    g = T.opaque("g", shape)
    pre = m.Preconditioner(g, block_size, 4096, False, m.PreconditionerType[ptype_name], 0)
    eyes = [T.eye(int(sym.concrete_int(a))) for a, _ in pre.shapes_for_preconditioners()]
    out = pre.preconditioned_grad(g, eyes)
    ctx.oblige("Preconditioner.preconditioned_grad.post.shape", tuple(int(sym.concrete_int(d)) for d in out.shape) == tuple(shape))
    for idx in itertools.product(*[range(d) for d in shape]):
      ctx.oblige("Preconditioner.preconditioned_grad.post.identity preconditioners return the gradient unchanged (every entry in place)",
                 out.at(idx) == g.at(idx), detail=f"shape={shape} block_size={block_size} type={ptype_name} index={idx}")

  return t


# ---------------------------------------------------------------- P4 tearfree reshaper
def skolem_index(ctx, shape, name="i"):
  idx = []
  for a, d in enumerate(shape):
    i = spec.fresh_int(f"{name}{a}")
    ctx.assume(sym.sand(i >= 0, i < d))
    idx.append(i)
    ctx.index_terms.append(i)
  return tuple(idx)


def mk_reshaper(rank, block_mode):
  """block_mode: 'zero' (no padding) or 'sym' (symbolic block size >= 2)."""

  def t(ctx, it):
    r = it.load_module(RS)
    x, dims = sym_param(rank)
    merge_dims = spec.fresh_int("merge_dims", lo=2)
    block = 0 if block_mode == "zero" else spec.fresh_int("block_size", lo=2)
    opts = r.Options(merge_dims, block)
    shapes = r._derive_shapes(opts, x)
    tag = "reshaper._derive_shapes"
    merged, padded = shapes.merged_shape, shapes.padded_shape
    ctx.oblige(f"{tag}.post.original-shape-recorded",
               len(shapes.original_shape) == rank and all(a is b for a, b in zip(shapes.original_shape, dims)))
    ctx.oblige(f"{tag}.post.same-rank", len(merged) == len(padded))
    tot = 1
    for d in dims:
      tot = tot * d
    mt = 1
    for d in merged:
      mt = mt * d
    ctx.oblige(f"{tag}.post.merged-element-count-preserved", mt == tot)
    ctx.oblige(f"{tag}.post.merged-has-no-unit-dim", sym.sand(*[m > 1 for m in merged]))
    for a, (mm, pp) in enumerate(zip(merged, padded)):
      if block_mode == "zero":
        ctx.oblige(f"{tag}.post.axis{a}.block=0-means-no-padding", pp == mm)
      else:
        ctx.oblige(f"{tag}.post.axis{a}.padded>=merged", pp >= mm)
        ctx.oblige(f"{tag}.post.axis{a}.padded<merged+block", pp < mm + block)
        q = spec.fresh_int(f"qpad{a}")
        ctx.oblige(f"{tag}.post.axis{a}.large-dims-become-block-multiples",
                   sym.implies(mm >= block, SBool(z3.Exists([q.z], (pp == q * block).z))))
        ctx.oblige(f"{tag}.post.axis{a}.small-dims-untouched", sym.implies(mm < block, pp == mm))
    # round trip through the real merge()/unmerge() transformations on a one-leaf tree
    mtx = r.merge(opts)
    utx = r.unmerge(opts)
    y, _ = mtx.update(x, mtx.init(x), x)
    ctx.oblige("reshaper.merge.post.result-has-padded-shape",
               len(y.shape) == len(padded) and sym.sand(*[a == b for a, b in zip(y.shape, padded)]))
    z, _ = utx.update(y, utx.init(x), x)
    ctx.oblige("reshaper.unmerge.post.result-has-original-shape",
               len(z.shape) == rank and sym.sand(*[a == b for a, b in zip(z.shape, dims)]))
    if rank:
      idx = skolem_index(ctx, dims)
      ctx.oblige("reshaper.unmerge(merge(x))[i]=x[i] at a Skolem index", z.at(idx) == x.at(idx))
      # padding entries are exactly zero and real entries keep their value in the merged view
      if len(padded):
        jdx = []
        for a, d in enumerate(padded):
          j = spec.fresh_int(f"p{a}")
          ctx.assume(sym.sand(j >= 0, j < d))
          jdx.append(j)
        outside = sym.sor(*[j >= m_ for j, m_ in zip(jdx, merged)])
        ctx.oblige("reshaper.merge.post.padding-entries-are-zero", sym.implies(outside, y.at(tuple(jdx)) == 0))

  return t


# ---------------------------------------------------------------- P4/S6 tearfree shampoo blocks
def mk_blocks(rank, large_axes):
  """_blocks_metadata / _blockify / _deblockify for one placement of large axes."""

  def t(ctx, it):
    s = it.load_module(TS)
    B = spec.fresh_int("block_size", lo=2)
    opts = s.Options(block_size=B)
    dims = []
    nblk = {}
    for a in range(rank):
      if a in large_axes:
        q = spec.fresh_int(f"q{a}", lo=1)
        nblk[a] = q
        dims.append(q * B)
      else:
        d = spec.fresh_int(f"d{a}", lo=2)
        ctx.assume(d < B)
        dims.append(d)
    x = T.opaque("x", tuple(dims))
    meta = s._blocks_metadata(opts, x.shape, "p")
    tag = "shampoo._blocks_metadata"
    ctx.oblige(f"{tag}.post.block-sizes=min(dim,B)",
               len(meta.block_sizes) == rank and
               sym.sand(*[bsz == (B if a in large_axes else dims[a]) for a, bsz in enumerate(meta.block_sizes)]))
    ctx.oblige(f"{tag}.post.large-axes", list(meta.large_axes) == list(large_axes))
    nb = 1
    for a in large_axes:
      nb = nb * nblk[a]
    ctx.oblige(f"{tag}.post.num-blocks=prod(dim//B)", meta.num_blocks == nb)
    tot = 1
    for d in dims:
      tot = tot * d
    bt = meta.num_blocks
    for bsz in meta.block_sizes:
      bt = bt * bsz
    ctx.oblige(f"{tag}.post.num_blocks*prod(block_sizes)=prod(param_shape)", bt == tot)
    ctx.oblige(f"{tag}.post.blocks-axis=first-large-axis-or-0",
               meta.blocks_axis == (large_axes[0] if large_axes else 0))
    y = s._blockify(x, meta)
    exp_shape = list(meta.block_sizes)
    exp_shape.insert(meta.blocks_axis, meta.num_blocks)
    ctx.oblige("shampoo._blockify.post.shape=[...,N@blocks_axis,...block sizes]",
               len(y.shape) == rank + 1 and sym.sand(*[a == b for a, b in zip(y.shape, exp_shape)]))
    z = s._deblockify(y, meta)
    ctx.oblige("shampoo._deblockify.post.shape=param_shape",
               len(z.shape) == rank and sym.sand(*[a == b for a, b in zip(z.shape, dims)]))
    if rank:
      # Skolem index in mixed-radix form on large axes: i = l*B + j (division theorem)
      idx = []
      for a, d in enumerate(dims):
        if a in large_axes:
          l_ = spec.fresh_int(f"il{a}")
          j_ = spec.fresh_int(f"ij{a}")
          ctx.assume(sym.sand(l_ >= 0, l_ < nblk[a], j_ >= 0, j_ < B))
          idx.append(l_ * B + j_)
        else:
          i_ = spec.fresh_int(f"i{a}")
          ctx.assume(sym.sand(i_ >= 0, i_ < d))
          idx.append(i_)
      idx = tuple(idx)
      ctx.axioms_used.add("division theorem: every 0<=i<q*B is l*B+j with 0<=l<q, 0<=j<B")
      ctx.oblige("shampoo._deblockify(_blockify(x))[i]=x[i] at a Skolem index", z.at(idx) == x.at(idx))
      # each block is the contiguous box [l*B,(l+1)*B) x [r*B,(r+1)*B)
      bidx = []
      for a, d in enumerate(exp_shape):
        j = spec.fresh_int(f"b{a}")
        ctx.assume(sym.sand(j >= 0, j < d))
        bidx.append(j)
      if len(large_axes) == 2:
        l = spec.fresh_int("l")
        rr = spec.fresh_int("r")
        ctx.assume(sym.sand(l >= 0, l < nblk[large_axes[0]], rr >= 0, rr < nblk[large_axes[1]]))
        bidx[meta.blocks_axis] = l * nblk[large_axes[1]] + rr
      blk = bidx[meta.blocks_axis]
      inner = bidx[:meta.blocks_axis] + bidx[meta.blocks_axis + 1:]
      src = list(inner)
      if len(large_axes) == 1:
        src[large_axes[0]] = blk * B + inner[large_axes[0]]
        ctx.oblige("shampoo._blockify.post.block-b-is-the-contiguous-slab-[b*B,(b+1)*B)",
                   y.at(tuple(bidx)) == x.at(tuple(src)))
      elif len(large_axes) == 2:
        l_ax, r_ax = large_axes
        R = nblk[r_ax]
        src[l_ax] = l * B + inner[l_ax]
        src[r_ax] = rr * B + inner[r_ax]
        ctx.oblige("shampoo._blockify.post.block-l*R+r-is-the-contiguous-box",
                   y.at(tuple(bidx)) == x.at(tuple(src)))
      else:
        ctx.oblige("shampoo._blockify.post.single-block-is-the-tensor", y.at(tuple(bidx)) == x.at(tuple(inner)))

  return t


def t_split_exclusively(ctx, it):
  s = it.load_module(TS)
  for n in range(0, 5):
    ls = [spec.fresh_int(f"e{i}") for i in range(n)]
    for k in range(0, 3):
      for splits in itertools.combinations(range(n), k):
        parts = s._split_exclusively(ls, list(splits))
        ctx.oblige("shampoo._split_exclusively.post.k+1-segments", len(parts) == k + 1)
        flat = []
        bounds = [-1] + list(splits) + [n]
        okk = True
        for (lo, hi), seg in zip(zip(bounds, bounds[1:]), parts):
          okk = okk and len(seg) == hi - lo - 1 and all(a is b for a, b in zip(seg, ls[lo + 1:hi]))
        ctx.oblige("shampoo._split_exclusively.post.segments-are-the-runs-between-splits", okk)


def tasks(tier):
  ts = [Task("merge_small_dims[symbolic rank]", t_merge_small_dims)]
  for r in range(0, 5):
    for bm in ("zero", "sym"):
      ts.append(Task(f"reshaper[rank={r},block={bm}]", mk_reshaper(r, bm)))
  for r in range(0, 6):
    for k in (0, 1, 2):
      for la in itertools.combinations(range(r), k):
        ts.append(Task(f"tearfree.shampoo.blocks[rank={r},large_axes={la}]", mk_blocks(r, la)))
  ts.append(Task("tearfree.shampoo._split_exclusively", t_split_exclusively))
  for r in range(0, 6):
    ts.append(Task(f"BlockPartitioner.__init__[rank={r}]", mk_partitioner(r)))
  for shp, bs in (((3,), 0), ((3, 2), 0), ((2, 3, 2), 0), ((2, 1, 2), 0), ((3, 2, 4), 0), ((4, 3), 2), ((2, 3, 4), 2), ((2, 2, 2, 2), 0)):
    for pt in ("ALL", "INPUT", "OUTPUT"):
      ts.append(Task(f"identity preconditioning[shape={shp},block={bs},{pt}]", mk_identity(shp, bs, pt)))
  for blocks in ((1,), (3,), (2, 1), (1, 2), (2, 3), (3, 2), (2, 1, 2), (2, 2, 2)):
    ts.append(Task(f"BlockPartitioner.partition order[blocks={blocks}]", mk_partition_order(len(blocks), blocks)))
  for r in range(1, 4):
    for pt in ("ALL", "INPUT", "OUTPUT"):
      opts = [1, 2] if tier == "quick" or r == 3 else [1, 2, 3]
      for blocks in itertools.product(opts, repeat=r):
        for comp in (False, True):
          ts.append(Task(f"Preconditioner[rank={r},{pt},blocks={blocks},compressed={comp}]",
                         mk_preconditioner(r, pt, blocks, comp)))
  return ts


def main(tier):
  extra = None
  if tier == "thorough":
    # engine self-test: interpreter + library model vs CPython/JAX on concrete inputs (a disagreement is an engine defect)
    from pyvc import difftest
    n, bad = difftest.run(int(H.os.environ.get("VERIF_SEED", "0")))
    extra = {"engine_selftest_differential": {"cases": n, "disagreements": [list(map(str, b)) for b in bad[:10]]}}
    extra["lean_lemmas"] = H.lean_lemmas()
    if extra["lean_lemmas"].get("checked") is False and "returncode" in extra["lean_lemmas"]:
      print(f"ENGINE-ERROR property={PID}: lemmas/Spec.lean does not check: {extra['lean_lemmas']['output'][-300:]}")
      return 3
    if bad:
      print(f"ENGINE-ERROR property={PID}: interpreter/library model disagrees with native execution on {len(bad)} of {n} cases: {bad[0]}")
      return 3
  return H.standard_main(PID, tier, tasks(tier), not_covered=NOT_COVERED, structural=STRUCTURAL, extra=extra)
