"""C06 — merging, blocking, blockifying and padding are lossless and self-consistent.

Contracts (DESIGN 7/C06, Appendix B.1-B.4) on the real functions:
  distributed_shampoo.merge_small_dims, BlockPartitioner.__init__,
  Preconditioner.{__init__, should_precondition_dims, shapes_for_preconditioners,
  exponent_for_preconditioner, _preconds_for_grad}, tearfree.reshaper._derive_shapes,
  _merge/_unmerge, tearfree.shampoo._blocks_metadata/_blockify/_deblockify/_split_exclusively.
"""
from __future__ import annotations

import itertools

import z3

from pyvc import ctx as C
from pyvc import harness as H
from pyvc import interp as I
from pyvc import seq as S
from pyvc import spec
from pyvc import sym
from pyvc import tensor as T
from pyvc.harness import Task
from pyvc.sym import SBool, SInt

PID = "C06"
DS = "precondition.distributed_shampoo"
RS = "precondition.tearfree.reshaper"
TS = "precondition.tearfree.shampoo"

NOT_COVERED = [
    "numerical identity-preconditioning (claimed only structurally through C02's axis-provenance obligations)",
    "partition/merge_partitions round trip for a symbolic NUMBER of blocks (S5); proved for 1..3 blocks per axis with symbolic dims, bounded stand-in beyond",
    "termination of the loops",
]


# ---------------------------------------------------------------- P1 merge_small_dims
def install_merge_invariant(it, shape, max_dim):
  """Loop 0 of merge_small_dims, k = number of processed dims (DESIGN B.1)."""

  def havoc(env, k):
    rs = spec.fresh_seq(
        "rs", each=lambda v, j: sym.sand(v > 1, sym.sor(v <= max_dim, _member(v, shape, k))))
    env["resulting_shape"] = S.SList(rs)
    env["product"] = spec.fresh_int("product")

  def inv(env, k):
    rs = env["resulting_shape"]
    product = env["product"]
    return sym.sand(
        spec.sprod(rs) * product == spec.prefix_prod(shape, k),
        product >= 1,
        spec.slen(rs) <= k,
        sym.sor(product <= max_dim, product == 1, _member(product, shape, k)),
        spec.forall_elems(rs, lambda v, j: sym.sand(
            v > 1, sym.sor(v <= max_dim, _member(v, shape, k)))),
    )

  it.loop_contracts[("merge_small_dims", 0)] = I.LoopContract(inv, havoc, "merge_small_dims.loop0")


def _member(v, shape, k):
  """∃w<k. v == shape[w]"""
  return spec.exists_index(0, k, lambda w: v == shape._pyvc_at(w))


def t_merge_small_dims(ctx, it):
  m = it.load_module(DS)
  shape = spec.fresh_seq("shape", each=lambda v, k: v >= 1)
  max_dim = spec.fresh_int("max_dim")
  install_merge_invariant(it, shape, max_dim)
  n = shape.n
  result = m.merge_small_dims(shape, max_dim)
  # lemma: the all-ones early exit.  The `all` reduction ranges over shape[k]==1;
  # Lean lemma prod_eq_one (lemmas/Spec.lean): all ones => product is one.
  for red in ctx.reductions:
    if red.kind == "all":
      k = spec.fresh_int("k_lem")
      elem = T.OPS.truth(red.x.at((k,)))
      ctx.oblige("merge_small_dims.lemma-premise(all ranges over shape[k]==1)",
                 sym.implies(sym.sand(k >= 0, k < n), elem == (shape._pyvc_at(k) == 1)),
                 kind="lemma-premise")
      ctx.fact(sym.implies(red.value(()), spec.prefix_prod(shape, n) == 1),
               "Lean Spec.prod_eq_one_of_all_one: all elements 1 => product 1")
  total = spec.prefix_prod(shape, n)
  ctx.oblige("merge_small_dims.post.product-preserved", spec.sprod(result) == total)
  is_one = (result == [1]) if isinstance(result, S.SList) else (result == [1])
  ctx.oblige("merge_small_dims.post.[1]-or-all-entries>1",
             sym.sor(is_one, spec.forall_elems(result, lambda v, j: v > 1)))
  ctx.oblige("merge_small_dims.post.empty-shape-gives-empty",
             sym.implies(n == 0, spec.slen(result) == 0))
  ctx.oblige("merge_small_dims.post.entries<=max_dim-or-a-single-input-dim",
             sym.sor(is_one, spec.forall_elems(
                 result, lambda v, j: sym.sor(v <= max_dim, _member(v, shape, n)))))


def tasks(tier):
  ts = [Task("merge_small_dims[symbolic rank]", t_merge_small_dims)]
  return ts


def main(tier):
  import time
  t0 = time.time()
  ts = tasks(tier)
  results = H.run_tasks(ts, H.os.path.join(H.VERIF, "out", PID))
  return H.finish_check(PID, tier, results, t0, checker_cmd=f"./verify {PID} --tier {tier}",
                        not_covered=NOT_COVERED)
