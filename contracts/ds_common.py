"""Shared driver pieces for Distributed Shampoo's per-parameter closures (C02, C04, C05)."""
from __future__ import annotations

import itertools

import z3

from pyvc import ctx as C
from pyvc import spec
from pyvc import sym
from pyvc import tensor as T
from pyvc.sym import SBool, SInt, SReal

DS = "precondition.distributed_shampoo"
QU = "precondition.quantization_utils"
GRAFTS = ["NONE", "SGD", "ADAGRAD", "RMSPROP", "RMSPROP_NORMALIZED", "SQRT_N", "ADAGRAD_NORMALIZED"]


class Cfg:
  """One discrete configuration; numeric hyper-parameters are symbolic."""

  def __init__(self, graft, nesterov, moving_avg, wd_mode, decoupled_lr, lr_sched, skip):
    self.graft, self.nesterov, self.moving_avg = graft, nesterov, moving_avg
    self.wd_mode, self.decoupled_lr, self.lr_sched, self.skip = wd_mode, decoupled_lr, lr_sched, skip

  def name(self):
    return (f"graft={self.graft},nesterov={int(self.nesterov)},ma={int(self.moving_avg)},wd={self.wd_mode},"
            f"dlr={int(self.decoupled_lr)},sched={int(self.lr_sched)},skip={int(self.skip)}")


def all_cfgs():
  for g, n, ma, wd, dlr, sch, sk in itertools.product(GRAFTS, (False, True), (False, True),
                                                       ("none", "coupled", "decoupled"), (False, True),
                                                       (False, True), (False, True)):
    yield Cfg(g, n, ma, wd, dlr, sch, sk)


class Setup:
  """Builds the real optimizer for a Cfg with symbolic numeric hyper-parameters and a symbolic
  per-parameter state; exposes the constructor's closures."""

  def __init__(self, ctx, it, cfg, rank=2, extra=None, beta2_one=False):
    m = it.load_module(DS)
    self.m = m
    self.QV = it.load_module(QU).QuantizedValue
    self.cfg = cfg
    self.beta1 = spec.fresh_real("beta1")
    ctx.assume(sym.sand(self.beta1 >= 0, self.beta1 < 1))
    if beta2_one:
      self.beta2 = 1.0
    else:
      self.beta2 = spec.fresh_real("beta2")
      ctx.assume(sym.sand(self.beta2 > 0, self.beta2 < 1))
    self.eps = spec.fresh_real("diagonal_epsilon")
    ctx.assume(self.eps > 0)
    self.wd = 0.0 if cfg.wd_mode == "none" else spec.fresh_real("weight_decay")
    if cfg.wd_mode != "none":
      ctx.assume(self.wd != 0)
    self.start = spec.fresh_int("start_preconditioning_step", lo=0)
    # the refresh intervals are arbitrary: _transform_grad (warm-up boundary, momenta ...) must not depend on them
    self.precond_interval = spec.fresh_int("preconditioning_compute_steps", lo=1)
    self.stats_interval = spec.fresh_int("statistics_compute_steps", lo=1)
    LR = z3.Function("LR", z3.IntSort(), z3.RealSort())
    if cfg.lr_sched:
      self.lr_fn = lambda step: SReal(LR(sym._as_int_z(step.item() if isinstance(step, T.Tensor) else step)))
      learning_rate = self.lr_fn
    else:
      self.lr_const = spec.fresh_real("lr")
      learning_rate = self.lr_const
    kw = dict(
        learning_rate=learning_rate, block_size=0, beta1=self.beta1, beta2=self.beta2,
        diagonal_epsilon=self.eps, weight_decay=self.wd, start_preconditioning_step=self.start,
        best_effort_shape_interpretation=False, graft_type=m.GraftingType[cfg.graft], nesterov=cfg.nesterov,
        moving_average_for_momentum=cfg.moving_avg, decoupled_learning_rate=cfg.decoupled_lr,
        decoupled_weight_decay=(cfg.wd_mode == "decoupled"),
        skip_preconditioning_rank_lt=(rank + 1 if cfg.skip else 1), skip_preconditioning_dim_size_gt=1 << 40,
        preconditioning_compute_steps=self.precond_interval, statistics_compute_steps=self.stats_interval)
    if extra:
      kw.update(extra)
    self.opt = m.distributed_shampoo(**kw)
    self.env = self.opt.update.env.vars
    self.dims = tuple(spec.fresh_int(f"d{a}", lo=1, hi=1 << 30) for a in range(rank))
    self.rank = rank

  def lr_at(self, step):
    return self.lr_fn(step) if self.cfg.lr_sched else self.lr_const

  def qv(self, t):
    return self.QV(t, [], [], T.float32, False, list(t.shape))

  def param_state(self, n_stats=0):
    d = self.dims
    self.g = T.opaque("g", d)
    self.theta = T.opaque("theta", d)
    self.mom = T.opaque("mom", d)
    self.dmom = T.opaque("dmom", d)
    self.v = T.opaque("v", d)
    base_v = self.v._fn

    def vfn(idx):
      val = base_v(idx)
      C.CUR.assume(val >= 0)  # state invariant: the diagonal accumulator is a sum of squares
      return val

    self.v._fn = vfn
    self.stats = [T.opaque(f"stat{k}", (d[k % len(d)], d[k % len(d)])) for k in range(n_stats)]
    self.pre = [T.opaque(f"prec{k}", (d[k % len(d)], d[k % len(d)])) for k in range(n_stats)]
    return self.m.ParameterStats(self.qv(self.v), self.stats, self.pre, self.qv(self.dmom), self.qv(self.mom),
                                 None, None)


def skolem(ctx, dims, name="x"):
  x = tuple(spec.fresh_int(f"{name}{a}") for a in range(len(dims)))
  ctx.assume(sym.sand(*[sym.sand(i >= 0, i < d) for i, d in zip(x, dims)]))
  ctx.index_points.append(x)
  return x
