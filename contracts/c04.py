"""C04 — refresh cadence and warm-up (transition contract of one update, count symbolic).

P1  DS: statistics' = statistics (same objects) unless count % statistics_compute_steps = 0 (`_compute_stats`);
    preconditioners' and training-metrics' = old unless count % interval = 0, and when they change they are
    gate(prev, Root(statistics', ...)) (`_pmap_compute_preconditioners` with symbolic interval >= 2 and interval 1);
    count' = count + 1 (`update_fn`); `_update_preconditioners_fn` dispatch.
P2  scheduled interval: preconditioning_compute_steps_schedule(...) >= 1 and is 1 or a multiple of 10.
P3  warm-up boundary: DS step < start selects the graft branch (C02-P1 proves the full formula incl. the `>=`);
    Tearfree Shampoo / Sketchy: lax.cond(count % freq == 0, refresh, keep) with keep returning the incoming
    blocks / sketches unchanged; count' = count + 1; Tearfree grafting count >= start is C05-P2.
"""
from __future__ import annotations

import z3

from contracts import c13
from contracts import ds_common as D
from pyvc import ctx as C
from pyvc import harness as H
from pyvc import pytree
from pyvc import spec
from pyvc import sym
from pyvc import tensor as T
from pyvc.harness import Task
from pyvc.sym import SBool, SInt, SReal

PID = "C04"
DS = D.DS
TS = "precondition.tearfree.shampoo"
SK = "precondition.tearfree.sketchy"

NOT_COVERED = [
    "bit-identity of float leaves on non-refresh steps is object identity / pointwise equality in the VC, which assumes XLA does not rewrite an untouched buffer",
    "the sharded variant's cadence is covered only through the shared closures (_compute_stats, _update_preconditioners_fn, efficient_cond) "
    "and the selection block (C03); sharded_update_fn as a whole is not executed symbolically",
]


def mk_precond_cadence(interval_kind):
  """interval_kind: 'sym' (symbolic >= 2), 'one'."""

  def t(ctx, it):
    m = it.load_module(DS)
    scheduled = interval_kind.startswith("scheduled")
    # ANY failure threshold (the placeholder error of non-refresh steps must be rejected by the gate whatever it is)
    tau = spec.fresh_real("inverse_failure_threshold")
    if scheduled:
      # the interval in force at a step is the SCHEDULED one (contract of preconditioning_compute_steps_schedule: some
      # integer >= 1, task `schedule`), whatever the configured starting interval is
      configured = 1 if interval_kind == "scheduled-from-1" else spec.fresh_int("preconditioning_compute_steps", lo=2)
      interval = spec.fresh_int("scheduled_interval", lo=1)
      it.call_contracts["preconditioning_compute_steps_schedule"] = lambda *a, **k: T.asarray(interval)
      LR = z3.Function("LR", z3.IntSort(), z3.RealSort())
      opt = m.distributed_shampoo(lambda t_: SReal(LR(sym._as_int_z(t_.item() if isinstance(t_, T.Tensor) else t_))), block_size=8,
                                  preconditioning_compute_steps=configured, decay_preconditioning_compute_steps=True,
                                  inverse_failure_threshold=tau,
                                  end_preconditioning_compute_steps=spec.fresh_int("end_preconditioning_compute_steps", lo=1))
    else:
      interval = spec.fresh_int("preconditioning_compute_steps", lo=2) if interval_kind == "sym" else 1
      # the statistics interval is arbitrary: the preconditioner cadence must not depend on it
      opt = m.distributed_shampoo(0.1, block_size=8, preconditioning_compute_steps=interval, inverse_failure_threshold=tau,
                                  statistics_compute_steps=spec.fresh_int("statistics_compute_steps", lo=1))
    env = opt.update.env.vars
    c13.GEN["metrics_cls"] = m.TrainingMetrics
    sz = spec.fresh_int("size", lo=1)
    f, elem = c13.fam("S", (sz, sz))
    pf, pelem = c13.fam("P", (sz, sz))
    i_star = spec.fresh_int("i_star")
    j_star = spec.fresh_int("j_star")
    ctx.assume(sym.sand(i_star >= 0, i_star < sz, j_star >= 0, j_star < sz))
    contract, RF, EF = c13.root_contract(ctx, i_star, j_star)
    env["mi_pth_root"] = contract
    N = 2
    statistics = [elem(k) for k in range(N)]
    prev = [pelem(k) for k in range(N)]
    old_err = [spec.fresh_real(f"old_err{k}") for k in range(N)]
    states = [m.ParameterStats(None, [statistics[k]], [prev[k]], None, None, None,
                               m.TrainingMetrics(inverse_pth_root_errors=T.full((1,), old_err[k])))
              for k in range(N)]
    step = spec.fresh_int("step", lo=0)
    new_states = env["_pmap_compute_preconditioners"](
        states, T.asarray(step), statistics, [1] * N, [(sz, sz)] * N, [4, 4], sz, prev)
    refresh = True if interval_kind == "one" else (step % interval == 0)
    i = spec.fresh_int("i")
    j = spec.fresh_int("j")
    ctx.assume(sym.sand(i >= 0, i < sz, j >= 0, j < sz))
    tag = "_pmap_compute_preconditioners"
    for k in range(N):
      got = new_states[k].preconditioners[0]
      name = sym._as_real_z(statistics[k].at((i_star, j_star)))
      root = SReal(RF(name, z3.IntVal(4), sz.z, i.z, j.z))
      err = SReal(EF(name, z3.IntVal(4), sz.z))
      accepted = sym.ite(err >= tau, prev[k].at((i, j)), root)
      if interval_kind == "one":
        ctx.oblige(f"{tag}.post.interval=1: every step refreshes: slot = gate(prev, Root(stat'))", got.at((i, j)) == accepted)
        ctx.oblige(f"{tag}.post.interval=1: diagnostics are the new error",
                   new_states[k].training_metrics.inverse_pth_root_errors.at((0,)) == err)
      else:
        ctx.oblige(f"{tag}.post.non-refresh-step (count % interval != 0): preconditioner unchanged",
                   sym.implies(sym.snot(refresh), got.at((i, j)) == prev[k].at((i, j))))
        ctx.oblige(f"{tag}.post.refresh-step (count % interval == 0): slot = gate(prev, Root(stat'))",
                   sym.implies(refresh, got.at((i, j)) == accepted))
        e_new = new_states[k].training_metrics.inverse_pth_root_errors.at((0,))
        ctx.oblige(f"{tag}.post.diagnostics change only on refresh steps",
                   sym.sand(sym.implies(sym.snot(refresh), e_new == old_err[k]), sym.implies(refresh, e_new == err)))
      ctx.oblige(f"{tag}.post.statistics-and-momenta-carried-over", new_states[k].statistics is states[k].statistics)

  return t


def t_dispatch(ctx, it):
  m = it.load_module(DS)
  calls = []
  every = lambda: (calls.append("every"), ("P_every", "M_every"))[1]
  gated = lambda: (calls.append("gated"), ("P_gated", "M_gated"))[1]
  r = m._update_preconditioners_fn(every, gated, 1, False)
  ctx.oblige("_update_preconditioners_fn.steps=1 calls the unconditional closure", calls == ["every"] and r == ("P_every", "M_every", None, None))
  calls.clear()
  r = m._update_preconditioners_fn(every, gated, 7, False)
  ctx.oblige("_update_preconditioners_fn.steps>1 calls the gated closure", calls == ["gated"] and r == ("P_gated", "M_gated", None, None))
  calls.clear()
  q = lambda tag: (lambda: (calls.append(tag), (tag + "P", tag + "D", tag + "B", tag + "M"))[1])
  r = m._update_preconditioners_fn(q("e"), q("g"), 1, False, quantized=True)
  ctx.oblige("_update_preconditioners_fn.quantized steps=1", calls == ["e"] and r == ("eP", "eD", "eB", "eM"))
  # scheduled: lax.cond(steps == 1, every, gated) on a traced value
  st = spec.fresh_int("steps_t", lo=1)
  a = T.opaque("A", (2,))
  b = T.opaque("B", (2,))
  r = m._update_preconditioners_fn(lambda: (a, a), lambda: (b, b), T.asarray(st), True)
  k = spec.fresh_int("k")
  ctx.assume(sym.sand(k >= 0, k < 2))
  ctx.oblige("_update_preconditioners_fn.scheduled: steps==1 ? unconditional : gated",
             r[0].at((k,)) == sym.ite(st == 1, a.at((k,)), b.at((k,))))


def t_efficient_cond(ctx, it):
  m = it.load_module(DS)
  p = spec.fresh_bool("predicate")
  a = T.opaque("a", (3,))
  b = T.opaque("b", (3,))
  calls = []
  out = m.efficient_cond(T.asarray(p), lambda: (calls.append(1), [a])[1], [b])
  k = spec.fresh_int("k")
  ctx.assume(sym.sand(k >= 0, k < 3))
  ctx.oblige("efficient_cond.post.result = compute_fn() if predicate else init_state",
             len(out) == 1 and sym.prove(out[0].at((k,)) == sym.ite(p, a.at((k,)), b.at((k,)))))
  ctx.oblige("efficient_cond.post.init_state returned unchanged (same object) when the predicate is false",
             True if calls else out[0] is b)


def t_schedule(ctx, it):
  m = it.load_module(DS)
  LR = z3.Function("LR", z3.IntSort(), z3.RealSort())
  lr_fn = lambda s: SReal(LR(sym._as_int_z(s)))
  start = spec.fresh_int("start_preconditioning_compute_steps", lo=1)
  end = spec.fresh_int("end_preconditioning_compute_steps", lo=1)
  step = spec.fresh_int("step", lo=0)
  ctx.assume(SReal(LR(z3.IntVal(0))) > 0)
  res = m.preconditioning_compute_steps_schedule(lr_fn, start, end, step)
  v = res.item() if isinstance(res, T.Tensor) else res
  ctx.oblige("preconditioning_compute_steps_schedule.post.>=1", v >= 1)
  q = z3.Int("q_sched")
  ctx.oblige("preconditioning_compute_steps_schedule.post.is 1 or a multiple of 10",
             sym.sor(v == 1, SBool(z3.Exists([q], sym._as_real_z(v) == z3.ToReal(q) * 10))))


def mk_tf_shampoo(which):

  def t(ctx, it):
    sh = it.load_module(TS)
    fs = spec.fresh_int("update_statistics_freq", lo=1)
    fp_ = spec.fresh_int("update_preconditioners_freq", lo=1)
    opts = sh.Options(block_size=4, update_preconditioners_freq=fp_, update_statistics_freq=fs, second_moment_decay=0.9)
    shape = (3, 2)
    g = T.opaque("g", shape)
    stats = [T.opaque(f"stats{a}", (1, d, d)) for a, d in enumerate(shape)]
    roots = [T.opaque(f"roots{a}", (1, d, d)) for a, d in enumerate(shape)]
    count = spec.fresh_int("count", lo=0)
    st = sh._ShampooState(count=T.asarray(count), blocks=sh._AxesBlocks(stats, roots))
    if which == "none":
      ctx.assume(sym.sand(count % fs != 0, count % fp_ != 0))
    elif which == "stats":
      ctx.assume(sym.sand(count % fs == 0, count % fp_ != 0))
    elif which == "precond":
      ctx.assume(sym.sand(count % fs != 0, count % fp_ == 0))
    elif which == "both":
      ctx.assume(sym.sand(count % fs == 0, count % fp_ == 0))
    upd, new = sh._update(opts, g, st)
    ctx.oblige("tearfree.shampoo._update.post.count+1", new.count.item() == count + 1)
    for a, d in enumerate(shape):
      i = spec.fresh_int(f"i{a}")
      j = spec.fresh_int(f"j{a}")
      ctx.assume(sym.sand(i >= 0, i < d, j >= 0, j < d))
      s_new, r_new = new.blocks.stats[a].at((0, i, j)), new.blocks.roots[a].at((0, i, j))
      if which in ("none", "precond"):
        ctx.oblige("tearfree.shampoo._update.post.statistics unchanged when count % update_statistics_freq != 0",
                   s_new == stats[a].at((0, i, j)), detail=which)
      else:
        ctx.oblige("tearfree.shampoo._update.post.statistics refreshed when count % update_statistics_freq == 0 (value differs structurally)",
                   sym.snot(sym.prove(s_new == stats[a].at((0, i, j)))), detail=which)
      if which in ("none", "stats"):
        ctx.oblige("tearfree.shampoo._update.post.roots unchanged when count % update_preconditioners_freq != 0",
                   r_new == roots[a].at((0, i, j)), detail=which)
      else:
        ctx.oblige("tearfree.shampoo._update.post.roots refreshed when count % update_preconditioners_freq == 0, whatever the "
                   "statistics schedule (value differs structurally from the stored root)",
                   sym.snot(sym.prove(r_new == roots[a].at((0, i, j)))), detail=which)
        # ... and they are the roots of the statistics current at that step
        ctx.oblige("tearfree.shampoo._update.post.refreshed roots are built from eigh of the statistics current at that step",
                   _same_eigh(ctx, new.blocks.stats[a], r_new), detail=which)

  return t


def _same_eigh(ctx, stat, r_new):
  """The refreshed root must be built from an eigh of the CURRENT statistics tensor (pointwise equal operand)."""
  for (x, w, v) in ctx.ghost.get("eighs", []):
    k = (spec.fresh_int("e0"), spec.fresh_int("e1"), spec.fresh_int("e2"))
    if len(x.shape) == 3 and len(stat.shape) == 3 and sym.prove(x.at(k) == stat.at(k)):
      names = {w.tags["f"].name(), v.tags["f"].name()}
      import z3

      def mentions(e, seen=set()):
        if z3.is_app(e) and e.decl().name() in names:
          return True
        return any(mentions(ch) for ch in e.children())

      if isinstance(r_new, sym.Sym) and mentions(r_new.z):
        return True
  return False


def mk_tf_sketchy(refresh):

  def t(ctx, it):
    sk = it.load_module(SK)
    f = spec.fresh_int("update_freq", lo=1)
    opts = sk.Options(rank=2, update_freq=f)
    shape = (4, 3)
    p = T.opaque("p", shape)
    st0 = sk._init(opts, p)
    count = spec.fresh_int("count", lo=0)
    axes = []
    for a, ax in enumerate(st0.sketches.axes):
      axes.append(sk._AxisState(T.opaque(f"V{a}", ax.eigvecs.shape), T.opaque(f"e{a}", ax.eigvals.shape),
                                T.opaque(f"ie{a}", ax.inv_eigvals.shape), T.opaque(f"t{a}", ()), T.opaque(f"it{a}", ()),
                                ax.ema_ggt, ax.svd_result_u, ax.svd_result_s, ax.inv_prev_tail))
    st = sk._SketchyState(count=T.asarray(count), sketches=sk._TensorState(axes))
    if refresh:
      ctx.assume(count % f == 0)
    else:
      ctx.assume(count % f != 0)
    upd, new = sk._update(opts, T.opaque("g", shape), st)
    ctx.oblige("tearfree.sketchy._update.post.count+1", new.count.item() == count + 1)
    for a, (old, nw) in enumerate(zip(axes, new.sketches.axes)):
      r = spec.fresh_int(f"r{a}")
      c = spec.fresh_int(f"c{a}")
      ctx.assume(sym.sand(r >= 0, r < old.eigvecs.shape[0], c >= 0, c < old.eigvecs.shape[1]))
      same = sym.sand(nw.eigvecs.at((r, c)) == old.eigvecs.at((r, c)), nw.eigvals.at((c,)) == old.eigvals.at((c,)),
                      nw.inv_eigvals.at((c,)) == old.inv_eigvals.at((c,)), nw.tail.item() == old.tail.item(),
                      nw.inv_tail.item() == old.inv_tail.item())
      if not refresh:
        ctx.oblige("tearfree.sketchy._update.post.sketch unchanged when count % update_freq != 0", same)
      else:
        ctx.oblige("tearfree.sketchy._update.post.sketch refreshed when count % update_freq == 0 (tail differs structurally)",
                   sym.snot(sym.prove(nw.tail.item() == old.tail.item())))

  return t


def tasks(tier):
  return _tasks(tier) + _boundary_tasks()


def _boundary_tasks():
  """'Updates before the start step are exactly the grafting optimizer's momentum update and from that step on use the
  preconditioners': the real _transform_grad against the documented formula with the step counter, the start step and BOTH
  refresh intervals symbolic (shared with C02 / C05)."""
  from contracts import c02
  from contracts import c05
  ts = []
  for graft in ("SGD", "RMSPROP"):
    ts.append(Task(f"warm-up boundary: graft direction/norm switch[{graft}]", c05.mk_ds(graft, False, False, False)))
  cfgs = [c for c in D.all_cfgs() if c.graft in ("SGD", "ADAGRAD") and not c.skip and c.wd_mode == "none" and not c.lr_sched]
  for c in cfgs[:8]:
    ts.append(Task(f"warm-up boundary: full update formula[{c.name()}]", c02.mk_transform(c)))
  return ts


def _tasks(tier):
  from contracts import c02
  ts = [Task("precond cadence[interval symbolic]", mk_precond_cadence("sym")),
        Task("precond cadence[interval=1]", mk_precond_cadence("one")),
        Task("precond cadence[scheduled, configured interval 1]", mk_precond_cadence("scheduled-from-1")),
        Task("precond cadence[scheduled, configured interval symbolic]", mk_precond_cadence("scheduled-from-n")),
        Task("_update_preconditioners_fn dispatch", t_dispatch), Task("efficient_cond", t_efficient_cond),
        Task("schedule", t_schedule), Task("update_fn phases/count (shared with C02)", c02.t_phases)]
  for b1 in (False, True):
    ts.append(Task(f"statistics cadence[beta2=1:{b1}] (shared with C02)", c02.mk_stats(b1, 2, True)))
  for w in ("none", "stats", "precond", "both"):
    ts.append(Task(f"tearfree shampoo cadence[{w}]", mk_tf_shampoo(w)))
  for r in (False, True):
    ts.append(Task(f"tearfree sketchy cadence[refresh={r}]", mk_tf_sketchy(r)))
  return ts


def main(tier):
  return H.standard_main(PID, tier, tasks(tier), not_covered=NOT_COVERED,
                         structural=["symbolic count, intervals, start step; 2 statistics", "Tearfree Shampoo on a (3,2) parameter, Sketchy on (4,3)"])
