"""C11 — quantized optimizer state round trip (bit-precise float32 with flush-to-zero).

The real QuantizedValue.quantize / to_float / from_float_value are executed pointwise at a Skolem element
of a rank-1..3 tensor; the column reduction contributes m = max_i |x_ij| with bound and witness facts.
P1  no wrap: |round(x / bucket')| <= 127 (32767) for every finite column
P2  zeros are reproduced exactly; with extract_diagonal the diagonal is returned bit-for-bit
P3a the column maximum quantizes to exactly +-N; |ratio| <= N (before rounding), |round(ratio) - ratio| <= 1/2
P3b half-bucket bound under the standard rounding model (real arithmetic with relative error 2^-24 per operation)
    for columns whose bucket neither underflows nor overflows:  |x - deq| <= b/2 + (|x| + N b) 2^-22
P4  re-quantizing the dequantized value reproduces the same integers (thorough tier; slow QF_FP)
float32 / bfloat16 "quantization" is a cast: identity / astype.
"""
from __future__ import annotations

import z3

from pyvc import ctx as C
from pyvc import fp
from pyvc import harness as H
from pyvc import spec
from pyvc import sym
from pyvc import tensor as T
from pyvc.harness import Task
from pyvc.sym import SBool, SInt, SReal

PID = "C11"
QU = "precondition.quantization_utils"
N = {"int8": 127.0, "int16": 32767.0}

NOT_COVERED = [
    "columns whose max-abs is within one rounding of FLT_MAX: fl(m/N)*N overflows and to_float returns +-inf for a finite input "
    "(known finding F11); the P3 obligations assume finite(fl(N*bucket))",
    "bucket underflow (0 < m < N*2^-126): XLA flushes the bucket to zero and the column dequantizes to 0 (absolute error < 1.5e-36); "
    "P3b is stated for normal-range buckets",
    "P3b is proved in the standard rounding model (real arithmetic), not bit-precisely",
]


def finite(v):
  return SBool(z3.And(z3.Not(z3.fpIsNaN(v.z)), z3.Not(z3.fpIsInf(v.z))))


def column_setup(ctx, rank):
  """x: rank-`rank` tensor of finite float32; Skolem element idx; returns (x, idx)."""
  dims = tuple(spec.fresh_int(f"d{a}", lo=1) for a in range(rank))
  x = fp.opaque_fp("x", dims)
  base = x._fn

  def fn(idx):
    v = base(idx)
    ctx.assume(finite(v))
    return v

  x._fn = fn
  idx = tuple(spec.fresh_int(f"i{a}") for a in range(rank))
  ctx.assume(sym.sand(*[sym.sand(i >= 0, i < d) for i, d in zip(idx, dims)]))
  ctx.index_terms.append(idx[0])
  return x, idx, dims


def mk_nowrap(dt, rank):

  def t(ctx, it):
    with fp.fp_mode():
      q = it.load_module(QU)
      x, idx, dims = column_setup(ctx, rank)
      qv = q.QuantizedValue.from_float_value(x, T.as_dtype(dt))
      ctx.require("from_float_value.post.shape-recorded", list(qv.shape) == list(dims) and qv.quantized_dtype == T.as_dtype(dt))
      qi = qv.quantized.at(idx)
      n = N[dt]
      # the value handed to astype(int): r = round(ratio)
      ratio, r = ctx.ghost["rounded"][-1]
      ctx.oblige(f"quantize[{dt}].stored-integer-is-the-cast-of-round(ratio)", SBool(qi.z == z3.fpRoundToIntegral(z3.RTZ(), r.z)))
      ctx.oblige(f"quantize[{dt}].P1.stored-integer-never-wraps: |round(x/bucket)| <= {int(n)}",
                 SBool(z3.fpLEQ(z3.fpAbs(r.z), z3.FPVal(n, fp.F32))), detail=f"rank {rank}")
      xi = x.at(idx)
      is_zero = SBool(z3.fpIsZero(xi.z))
      ctx.oblige(f"quantize[{dt}].P2.zero-quantizes-to-zero", sym.implies(is_zero, SBool(z3.fpIsZero(r.z))))
      deq = qv.to_float().at(idx)
      ctx.oblige(f"to_float[{dt}].P2.zeros-are-reproduced-exactly", sym.implies(is_zero, SBool(z3.fpIsZero(deq.z))))
      ctx.oblige(f"quantize[{dt}].P3a.|ratio| <= N + 1/2 before rounding",
                 SBool(z3.fpLEQ(z3.fpAbs(ratio.z), z3.FPVal(n + 0.5, fp.F32))))
      bs = qv.bucket_size.at(idx[1:])
      ctx.oblige(f"quantize[{dt}].post.bucket-size >= 0 and finite", sym.sand(bs >= 0.0, finite(bs)))

  return t


def mk_diag(dt):

  def t(ctx, it):
    with fp.fp_mode():
      q = it.load_module(QU)
      n = spec.fresh_int("n", lo=1)
      x = fp.opaque_fp("x", (n, n))
      base = x._fn
      x._fn = lambda idx: (lambda v: (ctx.assume(finite(v)), v)[1])(base(idx))
      qv = q.QuantizedValue.from_float_value(x, T.as_dtype(dt), True)
      i = spec.fresh_int("i")
      j = spec.fresh_int("j")
      ctx.assume(sym.sand(i >= 0, i < n, j >= 0, j < n))
      ctx.index_terms.append(i)
      ctx.oblige(f"quantize[{dt},extract_diagonal].P2.diagonal-stored-bit-for-bit", qv.diagonal.at((i,)).same_bits(x.at((i, i))))
      ctx.oblige(f"quantize[{dt},extract_diagonal].P2.off-diagonal-path-sees-exactly-zero-on-the-diagonal",
                 SBool(z3.fpIsZero(qv.quantized.at((i, i)).z)))
      deq = qv.to_float()
      d_ii = deq.at((i, i))
      ctx.oblige(f"to_float[{dt},extract_diagonal].P2.diagonal-reproduced (value-equal; -0 may become +0)",
                 SBool(z3.fpEQ(d_ii.z, x.at((i, i)).z)))

  return t


def t_casts(ctx, it):
  with fp.fp_mode():
    q = it.load_module(QU)
    x = fp.opaque_fp("x", (spec.fresh_int("n", lo=1),))
    i = spec.fresh_int("i")
    qv = q.QuantizedValue.from_float_value(x, T.float32)
    ctx.oblige("quantize[float32].identity", qv.quantized is x and qv.to_float() is x)
    e = q.QuantizedValue.from_float_value([], T.float32)
    ctx.oblige("from_float_value([]).empty-value", e.quantized == [] and e.to_float() == [])


def mk_halfbucket(dt):
  """Standard rounding model: every float operation returns (exact)(1+d), |d| <= 2^-24; comparisons exact."""

  def t(ctx, it):
    from pyvc import rnd
    with rnd.rnd_mode():
      q = it.load_module(QU)
      dims = (spec.fresh_int("d0", lo=1), spec.fresh_int("d1", lo=1))
      x = rnd.opaque_rnd("x", dims)
      idx = (spec.fresh_int("i0"), spec.fresh_int("i1"))
      ctx.assume(sym.sand(idx[0] >= 0, idx[0] < dims[0], idx[1] >= 0, idx[1] < dims[1]))
      ctx.index_terms.append(idx[0])
      qv = q.QuantizedValue.from_float_value(x, T.as_dtype(dt))
      deq = qv.to_float().at(idx)
      b = qv.bucket_size.at(idx[1:])
      xi = x.at(idx)
      n = N[dt]
      u = sym.SReal(z3.RealVal(1) / z3.RealVal(2**22))
      xr, dr, br = SReal(xi.z), SReal(deq.z), SReal(b.z)
      ax = sym.ite(xr >= 0, xr, -xr)
      err = xr - dr
      bound = br / 2 + (ax + n * br) * u
      ctx.assume(br > 0)
      ctx.oblige(f"to_float(quantize)[{dt}].P3b.|x - deq| <= bucket/2 + (|x| + N*bucket)*2^-22 (standard rounding model)",
                 sym.sand(err <= bound, err >= -bound))

  return t


def mk_idempotent(dt):

  def t(ctx, it):
    with fp.fp_mode():
      q = it.load_module(QU)
      x, idx, dims = column_setup(ctx, 2)
      qv = q.QuantizedValue.from_float_value(x, T.as_dtype(dt))
      deq = qv.to_float()
      n = N[dt]
      nb = deq.at(idx)
      ctx.assume(finite(nb))
      # the column of deq has the same witness row: instantiate its max at the same indices
      qv2 = q.QuantizedValue.from_float_value(deq, T.as_dtype(dt))
      ctx.oblige(f"quantize(to_float(quantize))[{dt}].P4.same-integers", qv2.quantized.at(idx) == qv.quantized.at(idx))

  return t


def tasks(tier):
  ts = []
  for dt in ("int8", "int16"):
    for rank in (1, 2, 3):
      ts.append(Task(f"no-wrap/zeros[{dt},rank={rank}]", mk_nowrap(dt, rank)))
    ts.append(Task(f"diagonal[{dt}]", mk_diag(dt)))
    ts.append(Task(f"half-bucket[{dt}]", mk_halfbucket(dt)))
  ts.append(Task("casts", t_casts))
  if tier == "thorough":
    ts.append(Task("idempotent[int8]", mk_idempotent("int8")))
  return ts


def main(tier):
  return H.standard_main(PID, tier, tasks(tier), not_covered=NOT_COVERED,
                         trusted_extra=["float32 model: z3 FloatingPoint, RNE, flush-to-zero on operands and results (XLA CPU)",
                                        "astype(int8/int16) of an integral float in range is exact; out of range the result is arbitrary"],
                         structural=["int8, int16 x rank 1..3, symbolic dims, every finite float32 column (P1, P2, P3a)",
                                     "P3b under the standard rounding model"])
