"""C11 — quantized optimizer state round trip (bit-precise float32 with flush-to-zero).

The real QuantizedValue.quantize / to_float / from_float_value are executed pointwise at a Skolem element
of a rank-1..3 tensor; the column reduction contributes m = max_i |x_ij| with bound and witness facts.
P1  no wrap: |round(x / bucket')| <= 127 (32767) for every finite column
P2  zeros are reproduced exactly; with extract_diagonal the diagonal is returned bit-for-bit
P3a the column maximum quantizes to exactly +-N; |ratio| <= N (before rounding), |round(ratio) - ratio| <= 1/2
P3b half-bucket bound under the standard rounding model (real arithmetic with relative error 2^-24 per operation)
    for columns whose bucket neither underflows nor overflows:  |x - deq| <= b/2 + (|x| + N b) 2^-22
P4  re-quantizing the dequantized value reproduces the same integers (thorough tier; slow QF_FP)
float32 / bfloat16 "quantization" is a cast: identity / astype.
"""
from __future__ import annotations

import z3

from pyvc import ctx as C
from pyvc import fp
from pyvc import harness as H
from pyvc import spec
from pyvc import sym
from pyvc import tensor as T
from pyvc.harness import Task
from pyvc.sym import SBool, SInt, SReal

PID = "C11"
QU = "precondition.quantization_utils"
N = {"int8": 127.0, "int16": 32767.0}

NOT_COVERED = [
    "columns whose max-abs is within one rounding of FLT_MAX: fl(m/N)*N overflows and to_float returns +-inf for a finite input "
    "(known finding F11); the P3 obligations assume finite(fl(N*bucket))",
    "bucket underflow (0 < m < N*2^-126): XLA flushes the bucket to zero and the column dequantizes to 0 (absolute error < 1.5e-36); "
    "P3b is stated for normal-range buckets",
    "P3b is proved in the standard rounding model (real arithmetic), not bit-precisely",
    "P4 idempotence of the stored integers under re-quantization: no obligation is discharged (solver limit); bounded native oracle only",
]


def finite(v):
  return SBool(z3.And(z3.Not(z3.fpIsNaN(v.z)), z3.Not(z3.fpIsInf(v.z))))


def column_setup(ctx, rank):
  """x: rank-`rank` tensor of finite float32; Skolem element idx; returns (x, idx)."""
  dims = tuple(spec.fresh_int(f"d{a}", lo=1) for a in range(rank))
  x = fp.opaque_fp("x", dims)
  base = x._fn

  def fn(idx):
    v = base(idx)
    ctx.assume(finite(v))
    return v

  x._fn = fn
  idx = tuple(spec.fresh_int(f"i{a}") for a in range(rank))
  ctx.assume(sym.sand(*[sym.sand(i >= 0, i < d) for i, d in zip(idx, dims)]))
  ctx.index_terms.append(idx[0])
  return x, idx, dims


def mk_nowrap(dt, rank):

  def t(ctx, it):
    with fp.fp_mode():
      q = it.load_module(QU)
      x, idx, dims = column_setup(ctx, rank)
      qv = q.QuantizedValue.from_float_value(x, T.as_dtype(dt))
      ctx.require("from_float_value.post.shape-recorded", list(qv.shape) == list(dims) and qv.quantized_dtype == T.as_dtype(dt))
      qi = qv.quantized.at(idx)
      n = N[dt]
      # the value handed to astype(int): r = round(ratio)
      ratio, r = ctx.ghost["rounded"][-1]
      xi_pre = x.at(idx)
      ctx.oblige(f"quantize[{dt}].stored-integer-is-the-cast-of-round(ratio)", SBool(qi.z == z3.fpRoundToIntegral(z3.RTZ(), r.z)))
      # P1 is decomposed: (A) |ratio| <= N + 1/4 on the real code; (B) for EVERY float y, |y| <= N + 1/4 implies
      # |rint(y)| <= N (one-variable lemma, proved here for an arbitrary y and then instantiated at y = ratio).
      y = fp.fresh_fp("y_lemma")
      lemma = lambda v: sym.implies(SBool(z3.fpLEQ(z3.fpAbs(v), z3.FPVal(n + 0.25, fp.F32))),
                                    SBool(z3.fpLEQ(z3.fpAbs(z3.fpRoundToIntegral(fp.RNE, fp.ftz(v))), z3.FPVal(n, fp.F32))))
      ctx.oblige(f"quantize[{dt}].P1.lemma-B: for every float y, |y| <= N+1/4 => |rint(y)| <= N", lemma(y.z), kind="lemma")
      ctx.fact(lemma(ratio.z), "instance at y = ratio of lemma B (proved above for an arbitrary float y)")
      # (A) is itself decomposed: (A') at the row w where the column maximum is attained the ratio involves a single
      # float; (M) for the same divisor, |x_i| <= |x_w| implies |fl(x_i/d)| <= |fl(x_w/d)| (IEEE rounding and
      # flush-to-zero are monotone) - library axiom.
      red = [r_ for r_ in ctx.reductions if r_.kind == "max"][-1]
      w = red.wit[T._key(idx[1:])][0]
      idx_w = (w,) + tuple(idx[1:])
      qv.quantized.at(idx_w)
      ratio_w, r_w = ctx.ghost["rounded"][-1]
      aprime = SBool(z3.fpLEQ(z3.fpAbs(ratio_w.z), z3.FPVal(n + 0.25, fp.F32)))
      if dt == "int8":
        ctx.oblige(f"quantize[{dt}].P1.A': |x_w / bucket'| <= N + 1/4 at the row attaining the column maximum",
                   aprime, detail=f"rank {rank}")
      else:
        # the bit-precise single-variable query does not terminate for int16 (z3 600 s, cvc5): A' is proved under the
        # standard rounding model (task "A'[int16]") and, in the thorough tier, by exhaustive enumeration of all
        # float32 values on the real code (native/c11_exhaustive.py); here it is an explicit assumption.
        ctx.assume(aprime, "int16: |x_w/bucket'| <= N+1/4 at the maximising row is assumed in the bit-precise chain "
                   "(proved under the standard rounding model; exhaustively enumerated on the real code in the thorough tier)")
      ctx.fact(sym.implies(abs(xi_pre) <= abs(x.at(idx_w)),
                           SBool(z3.fpLEQ(z3.fpAbs(ratio.z), z3.fpAbs(ratio_w.z)))),
               "IEEE-754: division by the same divisor is monotone in |dividend| (rounding and flush-to-zero are monotone)")
      ctx.oblige_abstract(f"quantize[{dt}].P1.A: |x / bucket'| <= N + 1/4 for every finite column",
                          SBool(z3.fpLEQ(z3.fpAbs(ratio.z), z3.FPVal(n + 0.25, fp.F32))),
                          ops=(z3.Z3_OP_FPA_DIV, z3.Z3_OP_FPA_MUL, z3.Z3_OP_FPA_ROUND_TO_INTEGRAL), detail=f"rank {rank}")
      ctx.oblige(f"quantize[{dt}].P1.stored-integer-never-wraps: |round(x/bucket)| <= {int(n)}",
                 SBool(z3.fpLEQ(z3.fpAbs(r.z), z3.FPVal(n, fp.F32))), detail=f"rank {rank}")
      xi = x.at(idx)
      is_zero = SBool(z3.fpIsZero(xi.z))
      ctx.oblige(f"quantize[{dt}].P2.zero-quantizes-to-zero", sym.implies(is_zero, SBool(z3.fpIsZero(r.z))))
      deq = qv.to_float().at(idx)
      ctx.oblige(f"to_float[{dt}].P2.zeros-are-reproduced-exactly", sym.implies(is_zero, SBool(z3.fpIsZero(deq.z))))
      ctx.oblige(f"quantize[{dt}].P3a.|ratio| <= N + 1/2 before rounding",
                 SBool(z3.fpLEQ(z3.fpAbs(ratio.z), z3.FPVal(n + 0.5, fp.F32))))
      bs = qv.bucket_size.at(idx[1:])
      ctx.oblige(f"quantize[{dt}].post.bucket-size >= 0 and finite", sym.sand(bs >= 0.0, finite(bs)))

  return t


def mk_diag(dt):

  def t(ctx, it):
    with fp.fp_mode():
      q = it.load_module(QU)
      n = spec.fresh_int("n", lo=1)
      x = fp.opaque_fp("x", (n, n))
      base = x._fn
      x._fn = lambda idx: (lambda v: (ctx.assume(finite(v)), v)[1])(base(idx))
      qv = q.QuantizedValue.from_float_value(x, T.as_dtype(dt), True)
      i = spec.fresh_int("i")
      j = spec.fresh_int("j")
      ctx.assume(sym.sand(i >= 0, i < n, j >= 0, j < n))
      ctx.index_terms.append(i)
      ctx.oblige(f"quantize[{dt},extract_diagonal].P2.diagonal-stored-bit-for-bit", qv.diagonal.at((i,)).same_bits(x.at((i, i))))
      ctx.oblige(f"quantize[{dt},extract_diagonal].P2.off-diagonal-path-sees-exactly-zero-on-the-diagonal",
                 SBool(z3.fpIsZero(qv.quantized.at((i, i)).z)))
      deq = qv.to_float()
      d_ii = deq.at((i, i))
      ctx.oblige(f"to_float[{dt},extract_diagonal].P2.diagonal-reproduced bit-for-bit",
                 d_ii.same_bits(x.at((i, i))))

  return t


def t_casts(ctx, it):
  with fp.fp_mode():
    q = it.load_module(QU)
    x = fp.opaque_fp("x", (spec.fresh_int("n", lo=1),))
    i = spec.fresh_int("i")
    qv = q.QuantizedValue.from_float_value(x, T.float32)
    ctx.oblige("quantize[float32].identity", qv.quantized is x and qv.to_float() is x)
    e = q.QuantizedValue.from_float_value([], T.float32)
    ctx.oblige("from_float_value([]).empty-value", e.quantized == [] and e.to_float() == [])


def mk_halfbucket(dt, diag=False):
  """Standard rounding model: every float operation returns (exact)(1+d), |d| <= 2^-24; comparisons exact.
  diag: square input stored with extract_diagonal=True, claim for the off-diagonal entries."""

  def t(ctx, it):
    from pyvc import rnd
    with rnd.rnd_mode():
      q = it.load_module(QU)
      d0 = spec.fresh_int("d0", lo=1)
      dims = (d0, d0) if diag else (d0, spec.fresh_int("d1", lo=1))
      x = rnd.opaque_rnd("x", dims)
      idx = (spec.fresh_int("i0"), spec.fresh_int("i1"))
      ctx.assume(sym.sand(idx[0] >= 0, idx[0] < dims[0], idx[1] >= 0, idx[1] < dims[1]))
      if diag:
        ctx.assume(idx[0] != idx[1])
      ctx.index_terms.append(idx[0])
      qv = q.QuantizedValue.from_float_value(x, T.as_dtype(dt), True) if diag else q.QuantizedValue.from_float_value(x, T.as_dtype(dt))
      deq = qv.to_float().at(idx)
      b = qv.bucket_size.at(idx[1:])
      xi = x.at(idx)
      n = N[dt]
      u = sym.SReal(z3.RealVal(1) / z3.RealVal(2**22))
      xr, dr, br = SReal(xi.z), SReal(deq.z), SReal(b.z)
      ax = sym.ite(xr >= 0, xr, -xr)
      err = xr - dr
      bound = br / 2 + (ax + n * br) * u
      ctx.assume(br > 0)
      ctx.oblige(f"to_float(quantize)[{dt}].P3b.|x - deq| <= bucket/2 + (|x| + N*bucket)*2^-22 (standard rounding model)",
                 sym.sand(err <= bound, err >= -bound))

  return t


def mk_aprime_rnd(dt):
  """A' under the standard rounding model: one row, so the column maximum is |x| itself."""

  def t(ctx, it):
    from pyvc import rnd
    with rnd.rnd_mode():
      q = it.load_module(QU)
      d1 = spec.fresh_int("d1", lo=1)
      x = rnd.opaque_rnd("x", (1, d1))
      j = spec.fresh_int("j")
      ctx.assume(sym.sand(j >= 0, j < d1))
      n0 = len(ctx.ghost.setdefault("rounded_rnd", []))
      qv = q.QuantizedValue.from_float_value(x, T.as_dtype(dt))
      b = qv.bucket_size.at((j,))
      ctx.assume(SReal(b.z) > 0)
      qv.quantized.at((0, j))
      ratio = ctx.ghost["rounded_rnd"][-1]
      n = N[dt]
      rr = SReal(ratio.z)
      ctx.oblige(f"quantize[{dt}].P1.A' (standard rounding model): |x / bucket| <= N + 1/4 when the column maximum is |x|",
                 sym.sand(rr <= n + 0.25, rr >= -(n + 0.25)))

  return t


def mk_idempotent(dt):

  def t(ctx, it):
    with fp.fp_mode():
      q = it.load_module(QU)
      x, idx, dims = column_setup(ctx, 2)
      qv = q.QuantizedValue.from_float_value(x, T.as_dtype(dt))
      deq = qv.to_float()
      n = N[dt]
      nb = deq.at(idx)
      ctx.assume(finite(nb))
      # the column of deq has the same witness row: instantiate its max at the same indices
      qv2 = q.QuantizedValue.from_float_value(deq, T.as_dtype(dt))
      ctx.oblige(f"quantize(to_float(quantize))[{dt}].P4.same-integers", qv2.quantized.at(idx) == qv.quantized.at(idx))

  return t


def tasks(tier):
  ts = []
  for dt in ("int8", "int16"):
    for rank in (1, 2, 3):
      ts.append(Task(f"no-wrap/zeros[{dt},rank={rank}]", mk_nowrap(dt, rank)))
    ts.append(Task(f"diagonal[{dt}]", mk_diag(dt)))
    ts.append(Task(f"half-bucket[{dt}]", mk_halfbucket(dt)))
    ts.append(Task(f"half-bucket[{dt},extract_diagonal]", mk_halfbucket(dt, True)))
    ts.append(Task(f"A'[{dt}] standard rounding model", mk_aprime_rnd(dt)))
  ts.append(Task("casts", t_casts))
  # P4 (re-quantization keeps the integers) has no discharged obligation: the bit-precise query (mk_idempotent) is beyond
  # both solvers (unknown after 140 s, and an under-instantiated max produced a spurious counter-model once): it is NOT
  # run; idempotence is covered by the bounded native oracle only.
  return ts


def main(tier):
  # bit-precise float queries need a longer budget than the default (observed 20-70 s each, 16 cores busy)
  C.OBL_TIMEOUT_MS = max(C.OBL_TIMEOUT_MS, 400000)
  ex = H.native_oracle(PID, tier, script="c11_exhaustive.py", extra_args=["int16"] if tier == "quick" else ["int16", "int8"])
  rec = H.bounded_from_oracle("lemma A' on the real code: exhaustive enumeration of every finite non-negative float32 (complete for "
                              "this single-variable lemma; backs the int16 assumption of the bit-precise chain)", ex)
  rec["exhaustive"] = True
  return H.standard_main(PID, tier, tasks(tier), not_covered=NOT_COVERED, extra_bounded=[rec],
                         trusted_extra=["float32 model: z3 FloatingPoint, RNE, flush-to-zero on operands and results (XLA CPU)",
                                        "astype(int8/int16) of an integral float in range is exact; out of range the result is arbitrary",
                                        "IEEE-754: division by the same divisor is monotone in |dividend|"],
                         structural=["int8, int16 x rank 1..3, symbolic dims, every finite float32 column (P1, P2, P3a)",
                                     "P3b and A'(int16) under the standard rounding model"])
