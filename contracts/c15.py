"""C15 — Tearfree equals its documented composition.

P1  composition order: the real tearfree()/sharded_chain/second_order.apply/grafting.graft/momentum.apply are executed with
    the second-order statistics step replaced by a contract (opaque preconditioned tensor PG); post, pointwise:
    update = -lr(t) * momentum(weight decay(graft(unmerge(PG)))) with the ema scale (1-beta) first, Nesterov per
    optax.trace, weight decay before or after the momentum per option.  Each transform gets its own state slice.
P2  exact linearity in the learning rate (the learning rate occurs only as the last factor).
P3  Shampoo: statistics C' = beta C + (1-beta) G G' (sum when beta = 1) per block and axis; root = V diag(h^2) V' with
    h = lambda^(-1/(2p)), p = 2*rank, eigenvalues <= 1e-6 * (that block's max) zeroed — polynomial identities at small sizes.
P4  Sketchy _precondition: (inv_tail (I - VV') + V diag(inv_eig) V') applied along every axis in turn (small sizes).
P5  merging / padding deliver the same values for real entries: C06-P1/P4.
"""
from __future__ import annotations

import itertools

import z3

from pyvc import ctx as C
from pyvc import harness as H
from pyvc import spec
from pyvc import sym
from pyvc import tensor as T
from pyvc.harness import Task
from pyvc.sym import SBool, SInt, SReal

PID = "C15"
OP = "precondition.tearfree.optimizer"
SO = "precondition.tearfree.second_order"
TS = "precondition.tearfree.shampoo"
SK = "precondition.tearfree.sketchy"
GR = "precondition.tearfree.grafting"
MO = "precondition.tearfree.momentum"

NOT_COVERED = [
    "equality with an independent float64 reference to tolerance (bounded native oracle only)",
    "that zero padding inside a block does not perturb the root numerically (eigh on a singular block); AdaFactor grafting",
    "P3/P4 are polynomial identities at small concrete sizes (entries symbolic), not for symbolic sizes",
]


def mk_chain(ema, nesterov, wd_after, wd_on, mom_on, sched, graft):

  def t(ctx, it):
    op = it.load_module(OP)
    so = it.load_module(SO)
    gr = it.load_module(GR)
    mo = it.load_module(MO)
    sh = it.load_module(TS)
    beta = spec.fresh_real("momentum_decay") if mom_on else 0.0
    if mom_on:
      ctx.assume(sym.sand(beta > 0, beta <= 1))
    wd = spec.fresh_real("weight_decay") if wd_on else 0.0
    if wd_on:
      ctx.assume(wd > 0)
    start = spec.fresh_int("start_preconditioning_step", lo=0)
    LR = z3.Function("LR", z3.IntSort(), z3.RealSort())
    lr = (lambda c_: SReal(LR(sym._as_int_z(c_.item() if isinstance(c_, T.Tensor) else c_)))) if sched else spec.fresh_real("lr")
    dims = (3, 2)
    PG = T.opaque("PG", dims)
    calls = []

    def precond_contract(interp, fn, args, kwargs):
      options, updates, state = args[0], args[1], args[2]
      calls.append(updates)
      return PG, state

    it.call_contracts["_update"] = precond_contract   # tearfree.shampoo._update (module-level function)
    opts = op.TearfreeOptions(
        grafting_options=gr.Options(grafting_type=gr.GraftingType[graft], second_moment_decay=0.0 if graft in ("NONE", "SGD") else 0.9,
                                    start_preconditioning_step=start, skip_preconditioning_rank1=True,
                                    skip_preconditioning_any_dim_gt=4096),
        second_order_options=so.Options(merge_dims=2, shampoo_options=sh.Options(block_size=8)),
        momentum_options=mo.Options(ema=ema, nesterov=nesterov, momentum_decay=beta, weight_decay=wd,
                                    weight_decay_after_momentum=wd_after))
    tx = op.tearfree(lr, opts)
    theta = T.opaque("theta", dims)
    g = T.opaque("g", dims)
    st0 = tx.init(theta)
    # symbolic state: trace buffer and counters
    count = spec.fresh_int("count", lo=0)
    tr = T.opaque("trace", dims)
    graft_state, mom_state, lr_state = st0
    if graft != "NONE":
      graft_state = graft_state._replace(count=T.asarray(count))
    mom_list = list(mom_state)
    new_mom = []
    for s_ in mom_list:
      if "trace" in getattr(s_, "_fields", ()):
        new_mom.append(type(s_)(trace=tr))
      else:
        new_mom.append(s_)
    if "count" in getattr(lr_state, "_fields", ()):
      lr_state = type(lr_state)(count=T.asarray(count))
    state = (graft_state, tuple(new_mom), lr_state)
    n0 = len(ctx.ghost.setdefault("reduce_calls", []))
    upd, new_state = tx.update(g, state, theta)
    tag = "tearfree.update"
    ctx.require(f"{tag}.post.state-is-a-3-tuple (graft, momentum, lr) and the update has the parameter shape",
                len(new_state) == 3 and tuple(upd.shape) == dims)
    ctx.oblige(f"{tag}.second-order-step-called-once-on-the-merged-gradient", len(calls) == 1 and tuple(calls[0].shape) == dims)
    x = (spec.fresh_int("x0"), spec.fresh_int("x1"))
    ctx.assume(sym.sand(x[0] >= 0, x[0] < 3, x[1] >= 0, x[1] < 2))
    ctx.index_points.append(x)
    y = (spec.fresh_int("y0"), spec.fresh_int("y1"))
    ctx.assume(sym.sand(y[0] >= 0, y[0] < 3, y[1] >= 0, y[1] < 2))
    ctx.oblige(f"{tag}.merged-gradient-is-the-gradient (no merge/pad for this shape)", calls[0].at(y) == g.at(y))
    base = PG.at(x)
    if graft == "NONE":
      og = base
    else:
      norms = [r for r in ctx.ghost["reduce_calls"][n0:] if r.kind == "norm"]
      ctx.require(f"{tag}.two-norms (base, graft)", len(norms) == 2)
      nb = [r for r in norms if sym.prove(r.x.at(y) == PG.at(y))]
      ng = [r for r in norms if r not in nb]
      ctx.require(f"{tag}.norms-range-over-PG-and-the-graft-step", len(nb) == 1 and len(ng) == 1)
      ctx.oblige(f"{tag}.graft-norm-ranges-over-the-SGD-graft-step (the gradient)", ng[0].x.at(y) == g.at(y))
      Nb, Ng = nb[0].value(()), ng[0].value(())
      og = sym.ite(count >= start, base * sym.ite(Nb > 0, Ng / Nb, 0.0), g.at(x))
    u = og
    if wd_on and not wd_after:
      u = u + wd * theta.at(x)
    if mom_on:
      u1 = (1 - beta) * u if ema else u
      t_new = u1 + beta * tr.at(x)
      u = (u1 + beta * t_new) if nesterov else t_new
      mom_new = [s_ for s_ in new_state[1] if "trace" in getattr(s_, "_fields", ())]
      ctx.require(f"{tag}.momentum-state-has-one-trace", len(mom_new) == 1)
      ctx.oblige(f"{tag}.post.trace' = (1-beta if ema) * u + beta * trace", mom_new[0].trace.at(x) == t_new)
    if wd_on and wd_after:
      u = u + wd * theta.at(x)
    lr_t = lr(count) if sched else lr
    ctx.oblige(f"{tag}.post.update = -lr(t) * momentum(weight decay(graft(unmerge(PG))))  (exactly linear in lr)",
               upd.at(x) == -1.0 * lr_t * u,
               detail=f"ema={ema} nesterov={nesterov} wd_after={wd_after} wd={wd_on} momentum={mom_on} schedule={sched} graft={graft}")
    if graft != "NONE":
      ctx.oblige(f"{tag}.post.graft-count+1", new_state[0].count.item() == count + 1)

  return t


def t_chain_merged(ctx, it):
  """A parameter that IS merged: (2,3,2) with merge_dims=6 -> (6,2); the second-order step must see the merged
  gradient and its result must be unmerged."""
  op = it.load_module(OP)
  so = it.load_module(SO)
  gr = it.load_module(GR)
  mo = it.load_module(MO)
  sh = it.load_module(TS)
  lr = spec.fresh_real("lr")
  PG = T.opaque("PG", (6, 2))
  calls = []

  def precond_contract(interp, fn, args, kwargs):
    calls.append(args[1])
    return PG, args[2]

  it.call_contracts["_update"] = precond_contract
  opts = op.TearfreeOptions(
      grafting_options=gr.Options(grafting_type=gr.GraftingType.NONE, second_moment_decay=0.0),
      second_order_options=so.Options(merge_dims=6, shampoo_options=sh.Options(block_size=8)),
      momentum_options=mo.Options(momentum_decay=0.0))
  tx = op.tearfree(lr, opts)
  dims = (2, 3, 2)
  theta = T.opaque("theta", dims)
  g = T.opaque("g", dims)
  upd, _ = tx.update(g, tx.init(theta), theta)
  ctx.require("tearfree.update.second-order-step-sees-the-MERGED-gradient (6,2)", len(calls) == 1 and tuple(calls[0].shape) == (6, 2))
  x = tuple(spec.fresh_int(f"x{a}") for a in range(3))
  ctx.assume(sym.sand(*[sym.sand(x[a] >= 0, x[a] < dims[a]) for a in range(3)]))
  ctx.oblige("tearfree.update.merged-gradient[i*3+j, k] = g[i,j,k]", calls[0].at((x[0] * 3 + x[1], x[2])) == g.at(x))
  ctx.require("tearfree.update.post.update-has-the-ORIGINAL-shape", tuple(upd.shape) == dims)
  ctx.oblige("tearfree.update.post.update[i,j,k] = -lr * PG[i*3+j, k] (unmerge after preconditioning)",
             upd.at(x) == -1.0 * lr * PG.at((x[0] * 3 + x[1], x[2])))


def t_shampoo_math(ctx, it):
  """Statistics and roots of Tearfree Shampoo at a small size with symbolic entries."""
  sh = it.load_module(TS)
  beta = spec.fresh_real("second_moment_decay")
  ctx.assume(sym.sand(beta >= 0, beta < 1))
  opts = sh.Options(block_size=4, second_moment_decay=beta)
  shape = (2, 3)
  meta = sh._blocks_metadata(opts, shape, "p")
  g = T.opaque("g", (1,) + shape)
  stats = [T.opaque(f"C{a}", (1, d, d)) for a, d in enumerate(shape)]
  roots = [T.opaque(f"R{a}", (1, d, d)) for a, d in enumerate(shape)]
  nb = sh._update_block_stats(beta, g, sh._AxesBlocks(stats, roots), meta)
  for a, d in enumerate(shape):
    for i, j in itertools.product(range(d), repeat=2):
      if a == 0:
        gram = sum(g.at((0, i, k)) * g.at((0, j, k)) for k in range(shape[1]))
      else:
        gram = sum(g.at((0, k, i)) * g.at((0, k, j)) for k in range(shape[0]))
      ctx.oblige("tearfree.shampoo._update_block_stats.post.C' = beta*C + (1-beta)*G G' along the axis",
                 nb.stats[a].at((0, i, j)) == stats[a].at((0, i, j)) * beta + gram * (1 - beta), detail=f"axis {a} entry {(i, j)}")
  # beta = 1: plain sum
  nb1 = sh._update_block_stats(1.0, g, sh._AxesBlocks(stats, roots), meta)
  gram00 = sum(g.at((0, 0, k)) * g.at((0, 0, k)) for k in range(shape[1]))
  ctx.oblige("tearfree.shampoo._ema_update.post.decay=1: C' = C + G G'", nb1.stats[0].at((0, 0, 0)) == stats[0].at((0, 0, 0)) + gram00)
  # roots
  pre = sh._update_block_precond(sh._AxesBlocks(stats, roots), meta)
  rank = len(shape)
  p = 2 * rank
  for a, d in enumerate(shape):
    w, v = [e for e in ctx.ghost["eighs"] if e[0] is stats[a]][-1][1:]
    mx = None
    for k in range(d):
      mx = w.at((0, k)) if mx is None else sym.smax(mx, w.at((0, k)))
    for i, j in itertools.product(range(d), repeat=2):
      want = 0.0
      for k in range(d):
        lam = w.at((0, k))
        dropped = lam <= 1e-6 * mx
        h = sym.ite(dropped, 0.0, sym.spow(sym.ite(dropped, 1.0, lam), -0.5 / p))
        want = want + (h * v.at((0, i, k))) * (h * v.at((0, j, k)))
      ctx.oblige("tearfree.shampoo._pth_inv_root.post.root = V diag(h^2) V', h = lambda^(-1/(2p)), p = 2*rank, "
                 "eigenvalues <= 1e-6 * (the block's max) zeroed", pre.roots[a].at((0, i, j)) == want, detail=f"axis {a} entry {(i, j)}")
  ctx.oblige("tearfree.shampoo._update_block_precond.post.statistics-carried-over", pre.stats is stats)


def mk_sketchy_apply(shape):

  def t(ctx, it):
    sk = it.load_module(SK)
    k = 1
    opts = sk.Options(rank=k)
    g = T.opaque("g", shape)
    axes, dense = [], []
    for a, d in enumerate(shape):
      V = T.opaque(f"V{a}", (d, k))
      ie = T.opaque(f"ie{a}", (k,))
      it_ = spec.fresh_real(f"inv_tail{a}")
      axes.append(sk._AxisState(V, T.opaque(f"e{a}", (k,)), ie, T.asarray(spec.fresh_real(f"t{a}")), T.asarray(it_),
                                None, None, None, None))

      def D(i, j, V=V, ie=ie, it_=it_):
        vv = sum(V.at((i, r)) * V.at((j, r)) for r in range(k))
        ve = sum(V.at((i, r)) * ie.at((r,)) * V.at((j, r)) for r in range(k))
        return it_ * ((1.0 if i == j else 0.0) - vv) + ve

      dense.append(D)
    out = sk._precondition(opts, (), g, sk._TensorState(axes))
    ctx.require("tearfree.sketchy._precondition.post.shape", tuple(out.shape) == tuple(shape))
    for oidx in itertools.product(*[range(d) for d in shape]):
      want = 0.0
      for iidx in itertools.product(*[range(d) for d in shape]):
        term = g.at(iidx)
        for a in range(len(shape)):
          term = term * dense[a](iidx[a], oidx[a])
        want = want + term
      ctx.oblige("tearfree.sketchy._precondition.post.(inv_tail (I - VV') + V diag(inv_eig) V') applied along every axis",
                 out.at(oidx) == want, detail=f"shape {shape} out index {oidx}")

  return t


def tasks(tier):
  ts = []
  for ema, nest, wda, wd_on, mom_on, sched in itertools.product((False, True), (False, True), (False, True), (False, True),
                                                                 (False, True), (False, True)):
    if not mom_on and (ema or nest):
      continue
    for graft in ("NONE", "SGD"):
      ts.append(Task(f"chain[ema={int(ema)},nesterov={int(nest)},wd_after={int(wda)},wd={int(wd_on)},momentum={int(mom_on)},"
                     f"sched={int(sched)},graft={graft}]", mk_chain(ema, nest, wda, wd_on, mom_on, sched, graft)))
  ts.append(Task("chain on a merged parameter", t_chain_merged))
  ts.append(Task("shampoo statistics and roots", t_shampoo_math))
  # "... by the exact inverse roots of its decayed covariances": the roots in use are those of the statistics current at
  # the latest refresh step, whatever the statistics schedule (shared with C04)
  from contracts import c04
  for w in ("none", "stats", "precond", "both"):
    ts.append(Task(f"shampoo roots follow the preconditioner schedule[{w}]", c04.mk_tf_shampoo(w)))
  # the grafting stage of the chain and its skip rules (rank <= 1, any dimension above the limit) for symbolic shapes incl.
  # unit dimensions (shared with C05)
  from contracts import c05
  for gt in ("SGD", "RMSPROP"):
    for masked in ("no", "rank1", "dim"):
      ts.append(Task(f"graft stage and skip rules[{gt},masked={masked}]", c05.mk_tf(gt, masked, False)))
  # "... and Sketchy by the frequent-directions root": the per-axis root values (inv_eig, inv_tail incl. the tail = 0 case)
  from contracts import c09
  for rank_, dim_, full_ in ((2, 0, False), (2, 1, True), (1, 0, False)):
    ts.append(Task(f"sketchy axis root values[rank={rank_},axis={dim_},k=d:{full_}]", c09.mk_sketchy(rank_, dim_, full_)))
  for shp in ([(3,), (3, 2)] if tier == "quick" else [(3,), (3, 2), (2, 3), (2, 2, 2)]):
    ts.append(Task(f"sketchy application[shape={shp}]", mk_sketchy_apply(shp)))
  return ts


def main(tier):
  return H.standard_main(PID, tier, tasks(tier), not_covered=NOT_COVERED,
                         structural=["80 chain configurations on a (3,2) parameter (no merge/pad)", "Shampoo math at (2,3); Sketchy application at small shapes"])
