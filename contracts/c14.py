"""C14 — training resumes bit-identically from serialized state: frame conditions.

P1-P3  syntactic frame obligation per function (pyvc/frame.py) for every function of the optimizer modules:
       no global/nonlocal, no store into module-global / closure-captured objects, parameters written only where the
       sidecar `assigns` clause says so, no process-global state (np.random module functions, time, os.environ, id/hash).
P1'    alias rule by symbolic execution: the real update entry points are executed with every state leaf tagged as a
       caller-owned NumPy array (what flax.serialization.from_bytes returns); an augmented assignment that reaches such a
       leaf (or a view of it) is an in-place write into the caller's state.
B5     bounded native resume harness (native/c14.py): the only check that can see compile-level effects.
"""
from __future__ import annotations

import os
import time

from pyvc import ctx as C
from pyvc import frame
from pyvc import harness as H
from pyvc import interp as I
from pyvc import pytree
from pyvc import spec
from pyvc import sym
from pyvc import tensor as T
from pyvc.harness import Task

PID = "C14"
MODULES = [
    "precondition.distributed_shampoo", "precondition.quantization_utils", "precondition.sm3",
    "precondition.tearfree.optimizer", "precondition.tearfree.second_order", "precondition.tearfree.shampoo",
    "precondition.tearfree.sketchy", "precondition.tearfree.grafting", "precondition.tearfree.momentum",
    "precondition.tearfree.reshaper", "precondition.tearfree.praxis_shim", "precondition.oco.algorithms",
]

# assigns clauses: parameters a function may write into, with the reason
ASSIGNS = {
    # the list is allocated by _compute_preconditioners on every call and handed over
    "distributed_shampoo.<locals>._pmap_compute_preconditioners": {"exponents"},
    "distributed_shampoo.<locals>._pmap_quantized_compute_preconditioners": {"exponents"},
    "distributed_shampoo.<locals>._pjit_compute_preconditioners": {"exponents"},
    # the OCO update functions own the state dict they are given (documented functional-style API: the
    # dict is returned); all of it is the serialized state
    "_ogd_update_fn": {"state"},
    "_diag_adagrad_update_fn": {"state"},
    "_fd_update_fn": {"state"},
}

NOT_COVERED = [
    "that flax.serialization restores every leaf bit-for-bit and handles MaskedNode/empty lists (library behaviour, assumed; B5 samples it)",
    "determinism of XLA across process restarts; that XLA evaluates a traced region with operands exactly as the eager ops do "
    "(the closure-capture rule covers the F16/F23 class: restored NumPy leaves captured by lax.cond / lax.while_loop bodies; "
    "other compile-level effects are reached only by the bounded harness B5)",
    "static (pytree_node=False) fields are checked by the bounded harness only",
]


def mk_frame(mod):

  def t(ctx, it):
    path = it.module_path(mod)
    text = it.source_overrides.get(mod) or open(path).read()
    recs, modv = frame.check_module(text, mod, ASSIGNS)
    for r in recs:
      it.used_functions[(mod, r["function"].split(":", 1)[1])] = r["sha"]
      if r["violations"]:
        ctx.fail(f"frame:{r['function'].split(':', 1)[1]}", kind="frame",
                 detail="; ".join(f"{k} line {ln}: {tx}" for k, ln, tx in r["violations"])[:400])
      else:
        ctx.oblige(f"frame:{r['function'].split(':', 1)[1]}", True, kind="frame")
    for k, ln, tx in modv:
      ctx.fail(f"frame:module:{mod}:{tx}", kind="frame", detail=f"{k} line {ln}")
    ctx.oblige(f"frame:module-globals-assigned-once:{mod}", not modv, kind="frame")

  return t


def own(tree, label):
  """Tags every tensor leaf of a state tree as a caller-owned NumPy array."""

  def f(l):
    if isinstance(l, T.Tensor):
      l.tags["numpy_owned"] = label
    return l

  return pytree.tree_map(f, tree)


def t_alias_sketchy(ctx, it):
  sk = it.load_module("precondition.tearfree.sketchy")
  for rank in (1, 2):
    dims = tuple(spec.fresh_int(f"d{rank}{a}", lo=2) for a in range(rank))
    opts = sk.Options(rank=2)
    p = T.opaque("p", dims)
    st = own(sk._init(opts, p), "sketchy state leaf")
    g = T.opaque("g", dims)
    sk._update(opts, g, st)
  ctx.oblige("alias:tearfree.sketchy._update: no in-place write reaches a state leaf", True, kind="frame")


def t_alias_shampoo(ctx, it):
  sh = it.load_module("precondition.tearfree.shampoo")
  opts = sh.Options(block_size=4)
  for shape in ((3, 2), (8, 3)):
    p = T.opaque("p", shape)
    st = own(sh._init(opts, p), "tearfree shampoo state leaf")
    sh._update(opts, T.opaque("g", shape), st)
  ctx.oblige("alias:tearfree.shampoo._update: no in-place write reaches a state leaf", True, kind="frame")


def t_alias_sm3(ctx, it):
  m = it.load_module("precondition.sm3")
  opt = m.sm3(0.1)
  p = T.opaque("p", (spec.fresh_int("d0", lo=1), spec.fresh_int("d1", lo=1)))
  st = own(opt.init(p), "sm3 state leaf")
  opt.update(T.opaque("g", p.shape), st, p)
  ctx.oblige("alias:sm3.update_fn: no in-place write reaches a state leaf", True, kind="frame")


def t_alias_grafting(ctx, it):
  g = it.load_module("precondition.tearfree.grafting")
  ps = it.load_module("precondition.tearfree.praxis_shim")
  direction = ps.ShardedGradientTransformation(lambda p: T.zeros(()), lambda u, s, p=None: (u, s), None)
  for gt in ("SGD", "RMSPROP"):
    tx = g.graft(g.Options(grafting_type=g.GraftingType[gt]), direction)
    p = T.opaque("p", (spec.fresh_int("d0", lo=1), spec.fresh_int("d1", lo=1)))
    st = own(tx.init(p), "grafting state leaf")
    tx.update(T.opaque("g", p.shape), st, p)
  mo = it.load_module("precondition.tearfree.momentum")
  tx = mo.apply(mo.Options(weight_decay=0.1))
  p = T.opaque("p", (3,))
  st = own(tx.init(p), "momentum state leaf")
  tx.update(T.opaque("g", (3,)), st, p)
  ctx.oblige("alias:tearfree grafting/momentum updates: no in-place write reaches a state leaf", True, kind="frame")


def t_alias_ds(ctx, it):
  """Distributed Shampoo update_fn with the root routine replaced by a contract (opaque result)."""
  m = it.load_module("precondition.distributed_shampoo")

  def root_contract(interp, fn, args, kwargs):
    mat = args[0]
    return T.opaque("root", mat.shape), m.TrainingMetrics(inverse_pth_root_errors=T.zeros(()))

  it.call_contracts["matrix_inverse_pth_root"] = root_contract
  for kw in (dict(), dict(graft_type=m.GraftingType.RMSPROP, preconditioning_compute_steps=2, statistics_compute_steps=2)):
    opt = m.distributed_shampoo(0.1, block_size=4, **kw)
    p = {"w": T.opaque("pw", (6, 3)), "b": T.opaque("pb", (5,))}
    st = own(opt.init(p), "distributed shampoo state leaf")
    g = {"w": T.opaque("gw", (6, 3)), "b": T.opaque("gb", (5,))}
    opt.update(g, st, p)
  ctx.oblige("alias:distributed_shampoo.update_fn: no in-place write reaches a state leaf", True, kind="frame")


def mk_alias_ds_cfg(cname, tname):
  """Every option combination of the C07 grid, with interval > 1 for statistics and preconditioners (so that every
  conditional region is present), run on a state whose leaves are caller-owned NumPy arrays (what from_bytes
  returns): no in-place write reaches a leaf, and no traced region computes on a captured leaf."""

  def t(ctx, it):
    from contracts import c07
    m = it.load_module("precondition.distributed_shampoo")
    it.call_contracts["matrix_inverse_pth_root"] = c07.root_contract_for(m)
    it.call_contracts["power_iteration"] = c07.pi_contract
    it.explanatory_asserts.add("assert#0@distributed_shampoo.<locals>.precond_dim")
    cfg = dict(c07.CONFIGS[cname])
    cfg.setdefault("statistics_compute_steps", 2)
    cfg.setdefault("preconditioning_compute_steps", 2)
    try:
      opt = c07.build(m, cfg)
      params = {k: T.opaque("p_" + k, s_) for k, s_ in c07.TREES[tname].items()}
      grads = {k: T.opaque("g_" + k, s_) for k, s_ in c07.TREES[tname].items()}
      st = own(opt.init(params), "distributed shampoo state leaf")
      _, st1 = opt.update(grads, st, params)
      opt.update(grads, own(st1, "distributed shampoo state leaf"), params)
    except c07.ALLOWED as e:
      ctx.oblige(f"alias:distributed_shampoo[{cname}]: configuration rejected with an explanatory error", bool(str(e)), kind="frame")
      return
    except AssertionError as e:
      if str(e):
        ctx.oblige(f"alias:distributed_shampoo[{cname}]: configuration rejected with an explanatory error", True, kind="frame")
        return
      raise
    ctx.oblige(f"alias:distributed_shampoo[{cname}].update_fn: restored NumPy leaves are neither written in place nor computed on as "
               "captured constants of a traced region", True, kind="frame")

  return t


def tasks(tier):
  ts = [Task(f"frame[{m.split('.', 1)[1]}]", mk_frame(m)) for m in MODULES]
  ts += [Task("alias[tearfree.sketchy]", t_alias_sketchy), Task("alias[tearfree.shampoo]", t_alias_shampoo),
         Task("alias[sm3]", t_alias_sm3), Task("alias[tearfree.grafting+momentum]", t_alias_grafting),
         Task("alias[distributed_shampoo]", t_alias_ds)]
  from contracts import c07
  for cname in c07.CONFIGS:
    for tname in (("mixed",) if tier == "quick" else ("mixed", "matrix+scalar", "rank3")):
      ts.append(Task(f"alias[distributed_shampoo:{cname},{tname}]", mk_alias_ds_cfg(cname, tname)))
  return ts


def main(tier):
  t0 = time.time()
  results = H.run_tasks(tasks(tier), os.path.join(H.VERIF, "out", PID))
  known = [k for k in H.load_known().get("known", []) if k["property"] == PID]
  res = H.native_oracle(PID, tier)
  bounded = [H.bounded_from_oracle("B5 native resume harness (bounded stand-in; not counted as proved)", res, known)]
  return H.finish_check(PID, tier, results, t0, checker_cmd=f"./verify {PID} --tier {tier}", not_covered=NOT_COVERED,
                        structural=["one frame obligation per function of 12 modules", "alias rule on 5 update entry points"],
                        replay=lambda: res, bounded=bounded,
                        trusted_extra=["frame checker: syntactic, conservative (pyvc/frame.py)",
                                       "NumPy semantics: `x op= y` on an ndarray is an in-place write; basic indexing returns views; "
                                       "results of jnp operations are fresh arrays"])
