"""C13 — device-count invariance of the distributed preconditioner computation.

P1  to_pad = -N % D is in [0, D) and makes N + to_pad a multiple of D: the real
    assignment statements (6 sites) evaluated for symbolic N >= 0, D >= 1.
P2  batch(xs, D)[r][c] = xs[r*b + c] for symbolic D, b (comprehension map rule);
    unbatch returns b1*b2 items of the ELEMENT shape with item r*b2+c = V[r][c]
    (b1, b2 in 1..3 enumerated, element dims symbolic).
P3  under the pmap axioms the k-th preconditioner returned by the real
    _pmap_compute_preconditioners is Root(stat k, exponent k, padding k) whatever D:
    enumerated (N, D) grid, symbolic matrices (generic-entry naming of matrices).
"""
from __future__ import annotations

import ast
import itertools
import time

import z3

from pyvc import ctx as C
from pyvc import harness as H
from pyvc import interp as I
from pyvc import pytree
from pyvc import seq as S
from pyvc import spec
from pyvc import sym
from pyvc import tensor as T
from pyvc.harness import Task
from pyvc.sym import SBool, SInt, SReal

PID = "C13"
DS = "precondition.distributed_shampoo"
L = "distributed_shampoo.<locals>."

NOT_COVERED = [
    "bit-level agreement of XLA's compiled code across device counts; actual multi-device execution",
    "P3 is proved for the enumerated (N, D) grid only (matrices, sizes and exponents symbolic)",
    "unbatch for b1, b2 > 3",
]

TO_PAD_SITES = [
    L + "_pmap_compute_preconditioners",
    L + "_pmap_quantized_compute_preconditioners",
    L + "_pjit_compute_preconditioners",
    L + "sharded_init_fn",
    L + "sharded_init_shape_and_dtype_fn",
    L + "sharded_update_fn",
]


def mk_to_pad(qual):

  def t(ctx, it):
    it.load_module(DS)
    node = it.find_stmt(DS, qual, lambda x: isinstance(x, ast.Assign) and len(x.targets) == 1 and
                        isinstance(x.targets[0], ast.Name) and x.targets[0].id == "to_pad" and
                        isinstance(x.value, ast.BinOp))
    n = spec.fresh_int("N", lo=0)
    d = spec.fresh_int("D", lo=1)
    names = {x.id for x in ast.walk(node.value) if isinstance(x, ast.Name)}
    env = {}
    for nm in names:
      if nm in ("num_devices", "num_devices_for_pjit"):
        env[nm] = d
      elif nm == "num_statistics":
        env[nm] = n
      elif nm in ("padded_statistics", "new_padded_statistics"):
        env[nm] = spec.fresh_seq(nm, length=n)
      elif nm == "len":
        pass
      else:
        raise C.Undecided(f"unexpected name {nm} in to_pad expression of {qual}")
    v = it.eval_expr_in(DS, node.value, env, qual)
    tag = qual.split(".")[-1] + ".to_pad"
    ctx.oblige(f"{tag}.post.0<=to_pad<D", sym.sand(v >= 0, v < d))
    q = spec.fresh_int("qq")
    ctx.oblige(f"{tag}.post.D-divides-N+to_pad", SBool(z3.Exists([q.z], (n + v == q * d).z)))
    if ctx.choose("multiple"):
      q0 = spec.fresh_int("q0", lo=0)
      ctx.assume(n == q0 * d)
      ctx.oblige(f"{tag}.post.no-padding-when-already-a-multiple", v == 0)

  return t


def fam(name, shape):
  """A symbolic family of matrices F(k, i, j) and the sequence view xs[k]."""
  f = z3.Function(C.CUR.fresh_name(name), z3.IntSort(), *([z3.IntSort()] * len(shape)), z3.RealSort())

  def elem(k):
    return T.Tensor(tuple(shape), T.float32,
                    lambda idx, k=k: SReal(f(sym._as_int_z(k), *[sym._as_int_z(i) for i in idx])))

  return f, elem


def t_batch(ctx, it):
  m = it.load_module(DS)
  D = spec.fresh_int("D", lo=1)
  b = spec.fresh_int("b", lo=1)
  s1 = spec.fresh_int("s1", lo=1)
  s2 = spec.fresh_int("s2", lo=1)
  f, elem = fam("X", (s1, s2))
  n = D * b
  xs = S.SSeq(n, elem, "xs")
  out = m.batch(xs, D)
  ctx.oblige("batch.post.shape=(D,b)+elem",
             len(out.shape) == 4 and sym.sand(out.shape[0] == D, out.shape[1] == b, out.shape[2] == s1,
                                              out.shape[3] == s2))
  r = spec.fresh_int("r")
  c = spec.fresh_int("c")
  i = spec.fresh_int("i")
  j = spec.fresh_int("j")
  ctx.assume(sym.sand(r >= 0, r < D, c >= 0, c < b, i >= 0, i < s1, j >= 0, j < s2))
  ctx.oblige("batch.post.[r][c]=xs[r*b+c]", out.at((r, c, i, j)) == elem(r * b + c).at((i, j)))
  # lists of python ints (exponents, paddings)
  g = z3.Function(ctx.fresh_name("E"), z3.IntSort(), z3.IntSort())
  es = S.SSeq(n, lambda k: SInt(g(sym._as_int_z(k))), "es")
  oe = m.batch(es, D)
  ctx.oblige("batch.post.scalars.shape=(D,b)", len(oe.shape) == 2 and sym.sand(oe.shape[0] == D, oe.shape[1] == b))
  ctx.oblige("batch.post.scalars.[r][c]=xs[r*b+c]", oe.at((r, c)) == SInt(g((r * b + c).z)))


def mk_unbatch(b1, b2, erank):

  def t(ctx, it):
    m = it.load_module(DS)
    edims = tuple(spec.fresh_int(f"s{a}", lo=1) for a in range(erank))
    V = T.opaque("V", (b1, b2) + edims)
    res = m.unbatch(V)
    ctx.oblige("unbatch.post.len=b1*b2", len(res) == b1 * b2)
    for r in range(b1):
      for c in range(b2):
        item = res[r * b2 + c]
        ok_shape = len(item.shape) == erank and all(a is b_ or sym.prove(a == b_) for a, b_ in zip(item.shape, edims))
        ctx.oblige("unbatch.post.item-has-the-element-shape", ok_shape, kind="layout",
                   detail=f"item shape {item.shape} vs element shape {edims}")
        if ok_shape is True or ok_shape:
          idx = tuple(spec.fresh_int(f"i{a}") for a in range(erank))
          ctx.assume(sym.sand(*[sym.sand(i >= 0, i < d) for i, d in zip(idx, edims)]))
          ctx.oblige("unbatch.post.item[r*b2+c]=V[r][c]", item.at(idx) == V.at((r, c) + idx))

  return t


# ---------------------------------------------------------------- P3
def constructor_env(it, **kw):
  m = it.load_module(DS)
  args = dict(learning_rate=0.1, block_size=8, batch_axis_name="batch")
  args.update(kw)
  opt = m.distributed_shampoo(**args)
  fn = opt.update
  return m, fn.env.vars


GEN = {}


def root_contract(ctx, i_star, j_star):
  """Contract standing for mi_pth_root: an opaque function of (matrix, exponent, padding) where
  the matrix is named by its generic entry (i*, j*)."""
  RF = z3.Function("Root", z3.RealSort(), z3.IntSort(), z3.IntSort(), z3.IntSort(), z3.IntSort(), z3.RealSort())
  EF = z3.Function("RootErr", z3.RealSort(), z3.IntSort(), z3.IntSort(), z3.RealSort())

  PF = z3.Function("WithPrev", z3.RealSort(), z3.RealSort(), z3.RealSort())

  def contract(stats, exponents, padding_start=None, prev=None):
    name = sym._as_real_z(stats.at((i_star, j_star)))
    if prev is not None and isinstance(prev, T.Tensor) and len(prev.shape) == 2:
      # a root routine may read the previous preconditioner it is handed (frequent directions does): the result is a
      # function of THAT matrix too, named by its generic entry
      name = PF(name, sym._as_real_z(prev.at((i_star, j_star))))
    p = sym._as_int_z(exponents.item() if isinstance(exponents, T.Tensor) else exponents)
    ps = sym._as_int_z(padding_start.item() if isinstance(padding_start, T.Tensor) else padding_start)
    root = T.Tensor(stats.shape, T.float32,
                    lambda idx: SReal(RF(name, p, ps, sym._as_int_z(idx[0]), sym._as_int_z(idx[1]))))
    err = T.Tensor((), T.float32, lambda idx: SReal(EF(name, p, ps)))
    return root, GEN["metrics_cls"](inverse_pth_root_errors=err)

  contract.with_prev = PF
  return contract, RF, EF


def mk_p3(N, D, grouping=None, reuse=False, metrics=True):
  """grouping: number of statistics per parameter state (default: one each); sum(grouping) = N.
  reuse: reuse_preconditioner=True - the root routine of statistic k is handed the previous preconditioner OF STATISTIC k."""
  grouping = tuple(grouping) if grouping else (1,) * N
  assert sum(grouping) == N

  def t(ctx, it):
    kw_ = dict(reuse_preconditioner=True) if reuse else {}
    if not metrics:
      kw_["generate_training_metrics"] = False   # the errors that gate the acceptance are still exchanged between the devices
    m, env = constructor_env(it, **kw_)
    GEN["metrics_cls"] = m.TrainingMetrics
    # every statistic has its OWN symbolic size s_k <= max_size (so its padding_start differs from its neighbours')
    sz = spec.fresh_int("max_size", lo=1)
    sizes = [spec.fresh_int(f"size{k}", lo=1) for k in range(N)]
    for s_k in sizes:
      ctx.assume(s_k <= sz)
    fams = [fam(f"S{k}", (sizes[k], sizes[k])) for k in range(N)]
    pfams = [fam(f"P{k}", (sizes[k], sizes[k])) for k in range(N)]
    for k in range(N):
      ctx.ghost.setdefault("dep_inputs", {})[fams[k][0].name()] = f"S{k}"
      ctx.ghost["dep_inputs"][pfams[k][0].name()] = f"P{k}"
    ef = z3.Function("expo", z3.IntSort(), z3.IntSort())
    i_star = spec.fresh_int("i_star")
    j_star = spec.fresh_int("j_star")
    ctx.assume(sym.sand(i_star >= 0, i_star < sz, j_star >= 0, j_star < sz))
    contract, RF, EF = root_contract(ctx, i_star, j_star)
    env["mi_pth_root"] = contract
    # pmap axioms for axis 'batch': replica index r is symbolic
    r = spec.fresh_int("replica")
    ctx.assume(sym.sand(r >= 0, r < D))
    ctx.ghost[("axis_size", "batch")] = D
    ctx.ghost[("axis_index", "batch")] = r

    def all_gather(x):
      def g(leaf):
        leaf = T.asarray(leaf)
        def fn(idx):
          v = leaf.at(idx[1:])
          rp = idx[0]
          if isinstance(v, sym.Sym):
            return type(v)(z3.substitute(v.z, (r.z, sym._as_int_z(rp))))
          return v
        return T.Tensor((D,) + leaf.shape, leaf.dtype, fn)
      return pytree.tree_map(g, x)

    ctx.ghost[("all_gather", "batch")] = all_gather
    statistics = [fams[k][1](k) for k in range(N)]
    prev = [pfams[k][1](k) for k in range(N)]
    exponents = [SInt(ef(z3.IntVal(k))) for k in range(N)]
    PS = m.ParameterStats
    QV = it.load_module("precondition.quantization_utils").QuantizedValue
    states, slot_of, off = [], {}, 0
    for gi, gsz in enumerate(grouping):
      states.append(PS(None, [statistics[off + q] for q in range(gsz)], [prev[off + q] for q in range(gsz)], None, None, None,
                       m.init_training_metrics(gsz, metrics)))
      for q in range(gsz):
        slot_of[off + q] = (gi, q)
      off += gsz
    step = spec.fresh_int("step", lo=0)
    new_states = env["_pmap_compute_preconditioners"](
        states, T.asarray(step), statistics, list(grouping), [(sizes[k], sizes[k]) for k in range(N)], exponents, sz, prev)
    tau = 0.1
    ctx.oblige("_pmap_compute_preconditioners.post.one-state-per-input-state", len(new_states) == len(grouping))
    for k in range(N):
      i = spec.fresh_int(f"i{k}")
      j = spec.fresh_int(f"j{k}")
      ctx.assume(sym.sand(i >= 0, i < sizes[k], j >= 0, j < sizes[k]))
      got = new_states[slot_of[k][0]].preconditioners[slot_of[k][1]]
      ctx.oblige("_pmap_compute_preconditioners.post.slot-k-has-the-shape-of-statistic-k",
                 sym.sand(got.shape[0] == sizes[k], got.shape[1] == sizes[k]), detail=f"N={N} D={D} k={k}")
      # the root routine sees statistic k padded to max_size, ITS exponent and ITS padding start (= its true size)
      name = sym._as_real_z(m.pad_square_matrix(statistics[k], sz).at((i_star, j_star)))
      if reuse:
        pk = env["pad_and_maybe_zero_preconditioners"]([prev[k]], 1, sz, T.asarray(step))[0]
        name = contract.with_prev(name, sym._as_real_z(pk.at((i_star, j_star))))
      want_root = SReal(RF(name, exponents[k].z, sizes[k].z, i.z, j.z))
      err = SReal(EF(name, exponents[k].z, sizes[k].z))
      keep = sym.sor(err >= tau)
      want = sym.ite(keep, prev[k].at((i, j)), want_root)
      ctx.oblige(f"_pmap_compute_preconditioners.post.slot-k=gate(prev[k],Root(pad(stat[k]),expo[k],size[k]))-independent-of-D"
                 "-and-of-every-other-statistic", got.at((i, j)) == want, detail=f"N={N} D={D} k={k} grouping={grouping}")
      from pyvc import deps
      rd = deps.collect(got.at((i, j)))
      foreign = sorted({nm for nm, _ in rd.items if nm not in (f"S{k}", f"P{k}")})
      ctx.oblige("_pmap_compute_preconditioners.frame: slot k is computed from statistic k and preconditioner k only - no arithmetic on "
                 "another replica's / statistic's entries (a product with a zero coefficient still reads its operand: 0 * inf = NaN)",
                 not foreign and len(rd.items) > 0, kind="frame", detail=f"N={N} D={D} k={k}: reads {sorted({nm for nm, _ in rd.items})}")

  return t


def t_sharded_select(ctx, it):
  """Sharded variant, any declared device count: with the stacked arrays padded to N + to_pad rows (to_pad = -N % D, incl.
  to_pad = 0) the selection block of sharded_update_fn stores, for EVERY real statistic k < N, gate(old[k], new[k],
  error[k]) - an expression that does not mention D or to_pad."""
  it.load_module(DS)
  N = spec.fresh_int("N", lo=1)
  Dv = spec.fresh_int("D", lo=1)
  node = it.find_stmt(DS, L + "sharded_update_fn", lambda x: isinstance(x, ast.Assign) and len(x.targets) == 1 and
                      isinstance(x.targets[0], ast.Name) and x.targets[0].id == "to_pad" and isinstance(x.value, ast.BinOp))
  names = {x.id for x in ast.walk(node.value) if isinstance(x, ast.Name)}
  env0 = {}
  for nm in names:
    if nm in ("num_devices", "num_devices_for_pjit"):
      env0[nm] = Dv
    elif nm == "num_statistics":
      env0[nm] = N
    elif nm in ("padded_statistics", "new_padded_statistics"):
      env0[nm] = spec.fresh_seq(nm, length=N)
    elif nm != "len":
      raise C.Undecided(f"unexpected name {nm} in the to_pad expression of sharded_update_fn")
  to_pad = it.eval_expr_in(DS, node.value, env0, L + "sharded_update_fn")
  rows = N + to_pad
  n = spec.fresh_int("n", lo=1)
  m_ = spec.fresh_int("m", lo=1)
  tau = spec.fresh_real("inverse_failure_threshold")
  errs = T.opaque("errors", (rows,))
  new = T.opaque("new_p", (rows, n, m_))
  old = T.opaque("old_p", (rows, n, m_))

  class Obj:
    pass

  metrics = Obj()
  metrics.inverse_pth_root_errors = errs
  gs = Obj()
  gs.preconditioners = old

  def is_assign_to(name):
    return lambda st: isinstance(st, ast.Assign) and any(isinstance(t_, ast.Name) and t_.id == name for t_ in st.targets)

  out = it.exec_block_in(DS, L + "sharded_update_fn", is_assign_to("errors"), is_assign_to("new_conditional_preconditioners"),
                         {"metrics": metrics, "inverse_failure_threshold": tau, "new_preconditioners": new, "global_stats": gs,
                          "to_pad": to_pad, "num_statistics": N, "num_devices_for_pjit": Dv})
  stored = out["new_conditional_preconditioners"]
  k = spec.fresh_int("k")
  i = spec.fresh_int("i")
  j = spec.fresh_int("j")
  ctx.assume(sym.sand(k >= 0, k < N, i >= 0, i < n, j >= 0, j < m_))
  ctx.require("sharded_update_fn.select.post.shape", len(stored.shape) == 3)
  e = errs.at((k,))
  ctx.oblige("sharded_update_fn.select.post: every real statistic k < N gets gate(old[k], new[k], error[k]) for any N, D (to_pad = 0 included)",
             stored.at((k, i, j)) == sym.ite(e >= tau, old.at((k, i, j)), new.at((k, i, j))))


def tasks(tier):
  ts = [Task(f"to_pad[{q.split('.')[-1]}]", mk_to_pad(q)) for q in TO_PAD_SITES]
  ts.append(Task("sharded_update_fn selection for any (N, D)", t_sharded_select))
  ts.append(Task("batch[symbolic D,b]", t_batch))
  for b1, b2 in itertools.product((1, 2, 3), repeat=2):
    for er in (0, 1, 2):
      ts.append(Task(f"unbatch[b1={b1},b2={b2},elem_rank={er}]", mk_unbatch(b1, b2, er)))
  grid = [(n, d) for d in (1, 2, 3) for n in range(1, 5)] if tier == "quick" else \
         [(n, d) for d in (1, 2, 3, 4) for n in range(1, 7)]
  for n, d in grid:
    ts.append(Task(f"pmap_compute_preconditioners[N={n},D={d}]", mk_p3(n, d)))
  for n, d in ((2, 2), (3, 2), (4, 3)):
    ts.append(Task(f"pmap_compute_preconditioners[N={n},D={d},reuse_preconditioner]", mk_p3(n, d, None, True)))
  for n, d in ((2, 2), (3, 2), (4, 3)):
    ts.append(Task(f"pmap_compute_preconditioners[N={n},D={d},generate_training_metrics=False]", mk_p3(n, d, None, False, False)))
  for n, d, gr in ((3, 2, (3,)), (3, 2, (2, 1)), (4, 3, (1, 3))):
    ts.append(Task(f"pmap_compute_preconditioners[N={n},D={d},statistics per parameter {gr}]", mk_p3(n, d, gr)))
  return ts


def main(tier):
  return H.standard_main(PID, tier, tasks(tier), not_covered=NOT_COVERED, structural=["to_pad: 6 code sites, symbolic N, D",
                                    "batch: symbolic D, b, element shape",
                                    "unbatch: b1,b2 in 1..3 x element rank 0..2 (symbolic element dims)",
                                    "P3: (N,D) grid, symbolic matrices/size/exponents/step"])
