"""C03 — a preconditioner is replaced only by a verified root (bit-precise float32, FTZ modelled).

P1  acceptance gate, all 2^64 (error, threshold) pairs incl. NaN / +-Inf / -0 / subnormals, arbitrary bit
    patterns of the new and the old root: stored is bitwise old or bitwise new, and
    stored != old  =>  stored = new and error is not NaN and error < threshold (hence finite, since the
    callee reports a max of absolute values: error >= 0 or NaN).
    Sites: _pmap_compute_preconditioners, _pmap_quantized_compute_preconditioners (live),
    _pjit_compute_preconditioners (unreachable from the public API; verified, no claim rests on it),
    and the selection in sharded_update_fn (statement block extracted mechanically).
P2  non-refresh steps: with error = inverse_failure_threshold the gate keeps the old root for every
    non-NaN threshold (pins `>=`).
P3  the per-update transition contract of _pmap_compute_preconditioners (slot bookkeeping) is C13-P3.
"""
from __future__ import annotations

import ast

import z3

from pyvc import ctx as C
from pyvc import fp
from pyvc import harness as H
from pyvc import spec
from pyvc import sym
from pyvc import tensor as T
from pyvc.harness import Task
from pyvc.sym import SBool, SInt

PID = "C03"
DS = "precondition.distributed_shampoo"
L = "distributed_shampoo.<locals>."
SITES = ["_pmap_compute_preconditioners", "_pmap_quantized_compute_preconditioners", "_pjit_compute_preconditioners"]

NOT_COVERED = [
    "'consequently stored preconditioners stay finite' as a numerical statement (a finite error figure does not by itself bound the "
    "entries of X under overflow) and 'the update is finite for gradients of magnitude 1e-12..1e12': floating-point range analyses of the root routines",
    "a NaN inverse_failure_threshold (excluded by precondition)",
    "NaN payload bits (SMT-LIB has a single NaN)",
]


def gate_claims(ctx, tag, e, tau, stored, new, old):
  is_old = stored.same_bits(old)
  is_new = stored.same_bits(new)
  ctx.oblige(f"{tag}.post.stored-is-bitwise-old-or-bitwise-new", sym.sor(is_old, is_new))
  nan_e = SBool(z3.fpIsNaN(e.z))
  lt = SBool(z3.fpLT(e.z, tau.z))
  ctx.oblige(f"{tag}.post.stored!=old => stored=new and error not NaN and error < threshold",
             sym.implies(sym.snot(is_old), sym.sand(is_new, sym.snot(nan_e), lt)))
  ctx.oblige(f"{tag}.post.error NaN or error >= threshold => old kept bit-for-bit",
             sym.implies(sym.sor(nan_e, SBool(z3.fpGEQ(fp.ftz(e.z), fp.ftz(tau.z)))), is_old))
  ctx.oblige(f"{tag}.post.error < threshold (after flush-to-zero) => new stored bit-for-bit",
             sym.implies(sym.sand(sym.snot(nan_e), SBool(z3.fpLT(fp.ftz(e.z), fp.ftz(tau.z)))), is_new))


def mk_gate(site, refresh):

  def t(ctx, it):
    with fp.fp_mode():
      tau = fp.fresh_fp("threshold")
      ctx.assume(SBool(z3.Not(z3.fpIsNaN(tau.z))))
      skip = it.make_nested(DS, L + site + ".<locals>._skip", {"inverse_failure_threshold": tau})
      select = it.make_nested(DS, L + site + ".<locals>._select_preconditioner", {"_skip": skip})
      n = spec.fresh_int("n", lo=1)
      m = spec.fresh_int("m", lo=1)
      new = fp.opaque_fp("new_p", (n, m))
      old = fp.opaque_fp("old_p", (n, m))
      e = tau if not refresh else fp.fresh_fp("error")
      err = T.Tensor((), T.float32, lambda idx: e)
      out = select(err, new, old)
      i = spec.fresh_int("i")
      j = spec.fresh_int("j")
      ctx.assume(sym.sand(i >= 0, i < n, j >= 0, j < m))
      tag = f"{site}.gate"
      ctx.require(f"{tag}.post.shape", len(out.shape) == 2)
      if refresh:
        gate_claims(ctx, tag, e, tau, out.at((i, j)), new.at((i, j)), old.at((i, j)))
      else:
        ctx.oblige(f"{tag}.non-refresh (error = threshold) keeps the old root for every non-NaN threshold",
                   out.at((i, j)).same_bits(old.at((i, j))))

  return t


def t_sharded(ctx, it):
  with fp.fp_mode():
    it.load_module(DS)
    tau = fp.fresh_fp("threshold")
    ctx.assume(SBool(z3.Not(z3.fpIsNaN(tau.z))))
    N = spec.fresh_int("N", lo=1)
    n = spec.fresh_int("n", lo=1)
    m = spec.fresh_int("m", lo=1)
    errs = fp.opaque_fp("errors", (N,))
    new = fp.opaque_fp("new_p", (N, n, m))
    old = fp.opaque_fp("old_p", (N, n, m))

    class Obj:
      pass

    metrics = Obj()
    metrics.inverse_pth_root_errors = errs
    gs = Obj()
    gs.preconditioners = old

    def is_assign_to(name):
      return lambda st: isinstance(st, ast.Assign) and any(isinstance(t_, ast.Name) and t_.id == name for t_ in st.targets)

    out = it.exec_block_in(DS, L + "sharded_update_fn", is_assign_to("errors"), is_assign_to("new_conditional_preconditioners"),
                           {"metrics": metrics, "inverse_failure_threshold": tau, "new_preconditioners": new, "global_stats": gs})
    stored = out["new_conditional_preconditioners"]
    k = spec.fresh_int("k")
    i = spec.fresh_int("i")
    j = spec.fresh_int("j")
    ctx.assume(sym.sand(k >= 0, k < N, i >= 0, i < n, j >= 0, j < m))
    ctx.require("sharded_update_fn.gate.post.shape", len(stored.shape) == 3)
    gate_claims(ctx, "sharded_update_fn.gate", errs.at((k,)), tau, stored.at((k, i, j)), new.at((k, i, j)), old.at((k, i, j)))


def t_quantized_triple(ctx, it):
  """pmap-quantized mode: a stored preconditioner is a TRIPLE (quantized matrix, diagonal, bucket sizes); the selection
  loop of _pmap_quantized_compute_preconditioners (extracted mechanically: from `def _skip` through the loop) keeps or
  replaces it COMPONENTWISE: each component is the old one when the error is rejected, the new one otherwise."""
  it.load_module(DS)
  qual = L + "_pmap_quantized_compute_preconditioners"
  n = spec.fresh_int("n", lo=1)
  mx = spec.fresh_int("max_size", lo=1)
  ctx.assume(n <= mx)
  tau = spec.fresh_real("inverse_failure_threshold")
  err = spec.fresh_real("error")

  class Obj:
    pass

  prev = Obj()
  prev.quantized, prev.diagonal, prev.bucket_size = T.opaque("old_q", (n, n)), T.opaque("old_d", (n,)), T.opaque("old_b", (n,))
  newq, newd, newb = T.opaque("new_q", (mx, mx)), T.opaque("new_d", (mx,)), T.opaque("new_b", (mx,))
  metrics = Obj()
  metrics.inverse_pth_root_errors = [T.asarray(err)]
  first = lambda st: isinstance(st, ast.FunctionDef) and st.name == "_skip"
  last = lambda st: isinstance(st, ast.For) and any(isinstance(x, ast.Name) and x.id == "new_quantized_bucket_sizes_flat" for x in ast.walk(st))
  out = it.exec_block_in(DS, qual, first, last,
                         {"inverse_failure_threshold": tau, "metrics_flat": metrics, "quantized_preconditioners_flat": [newq],
                          "quantized_diagonals_flat": [newd], "quantized_bucket_sizes_flat": [newb], "original_shapes": [(n, n)],
                          "prev_preconditioners": [prev]})
  i = spec.fresh_int("i")
  j = spec.fresh_int("j")
  ctx.assume(sym.sand(i >= 0, i < n, j >= 0, j < n))
  keep = err >= tau
  q1, d1, b1 = out["new_quantized_preconditioners_flat"], out["new_quantized_diagonals_flat"], out["new_quantized_bucket_sizes_flat"]
  ctx.require("_pmap_quantized_compute_preconditioners.select: one entry per statistic in each of the three lists",
              len(q1) == 1 and len(d1) == 1 and len(b1) == 1)
  ctx.oblige("_pmap_quantized_compute_preconditioners.select.post: quantized matrix = old if rejected else new",
             q1[0].at((i, j)) == sym.ite(keep, prev.quantized.at((i, j)), newq.at((i, j))))
  ctx.oblige("_pmap_quantized_compute_preconditioners.select.post: diagonal = old DIAGONAL if rejected else new",
             d1[0].at((i,)) == sym.ite(keep, prev.diagonal.at((i,)), newd.at((i,))))
  ctx.oblige("_pmap_quantized_compute_preconditioners.select.post: bucket sizes = old BUCKET SIZES if rejected else new",
             b1[0].at((i,)) == sym.ite(keep, prev.bucket_size.at((i,)), newb.at((i,))))


def tasks(tier):
  ts = [Task("quantized pmap selection keeps / replaces the triple componentwise", t_quantized_triple)]
  for s in SITES:
    ts.append(Task(f"gate[{s}]", mk_gate(s, True)))
    ts.append(Task(f"gate non-refresh[{s}]", mk_gate(s, False)))
  ts.append(Task("gate[sharded_update_fn]", t_sharded))
  # "stored preconditioners stay finite ... whatever happens to statistics (singular ...)": an accepted root must be
  # DEFINED.  The eigh routine's reported error does not see the root, so its definedness is an obligation of its own
  # (shared with C01): the base of every inverse p-th power is > 0 whatever eigenvalues eigh returns.
  # on a step that does not recompute roots the stored preconditioner is the old one for EVERY threshold: the
  # placeholder error handed to the gate must be rejected by it (real-valued thresholds; shared with C04)
  from contracts import c04
  ts.append(Task("non-refresh steps keep the old preconditioner for any threshold[interval symbolic]", c04.mk_precond_cadence("sym")))
  ts.append(Task("non-refresh steps keep the old preconditioner for any threshold[scheduled]", c04.mk_precond_cadence("scheduled-from-n")))
  from contracts import c01
  for rel in (True, False):
    for pad in (True, False):
      ts.append(Task(f"accepted eigh root is defined[relative_eps={rel},padded={pad}]", c01.mk_eigh(rel, pad)))
  return ts


def main(tier):
  return H.standard_main(PID, tier, tasks(tier), not_covered=NOT_COVERED,
                         trusted_extra=["float32 model: z3 FloatingPoint, RNE, flush-to-zero on operands and results (XLA CPU)"],
                         structural=["4 code sites x all float32 (error, threshold) pairs x arbitrary old/new bit patterns"])
