"""C16 — OCO algorithms match their closed forms (one update call as a transition contract).

P1  OGD / diagonal AdaGrad transition and init (symbolic dimension, entries, hyper-parameters).
P2  sketched methods: rho = s[-1]; s' = (s-rho)(s+rho) so s'[-1] = 0, stored e[-1] = 0, e = sqrt(s');
    alpha' = alpha + f*rho^2 with f = 1 (S-AdaGrad), 1/2 (RFD), 0 (FD-SON, Ada-FD); the row replaced by the
    gradient is the last one and the others are P[k]*e[k]; per-algorithm sketch scaling.
P3  update formula  P'(inv_s o P g) + inv_alpha (g - P'P g)  with safe inversion (polynomial identity at a
    small concrete size with symbolic entries).
"""
from __future__ import annotations

import z3

from pyvc import ctx as C
from pyvc import harness as H
from pyvc import spec
from pyvc import sym
from pyvc import tensor as T
from pyvc.harness import Task
from pyvc.sym import SBool, SInt, SReal

PID = "C16"
AL = "precondition.oco.algorithms"

NOT_COVERED = [
    "the frequent-directions bracket on computed values and 'lossless S-AdaGrad = full-matrix AdaGrad' (statements about the SVD of a "
    "rank-deficient matrix); they follow from P2/P3 by the FD theorem, which is cited, not proved",
    "float rounding",
]


def sk(ctx, name, hi):
  i = spec.fresh_int(name)
  ctx.assume(sym.sand(i >= 0, i < hi))
  return i


def t_ogd(ctx, it):
  m = it.load_module(AL)
  n = spec.fresh_int("n", lo=1)
  lr = spec.fresh_real("lr")
  delta = spec.fresh_real("delta", lo=0)
  hp = m.HParams(delta=delta, lr=lr, sketch_size=0, algorithm=m.Algorithm.OGD)
  init, update = m.generate_init_update((n,), hp)
  st0 = init()
  i = sk(ctx, "i", n)
  ctx.oblige("_ogd_init_fn.post.w=0,t=0", sym.sand(st0["w"].at((i,)) == 0, st0["t"].item() == 0))
  w = T.opaque("w", (n,))
  g = T.opaque("g", (n,))
  t = spec.fresh_real("t", lo=0)
  st = {"w": w, "t": T.asarray(t)}
  new = update(st, 0.0, g)
  t1 = new["t"].item()
  ctx.oblige("_ogd_update_fn.post.t'=t+1", t1 == t + 1)
  s = sym.ssqrt(t1 + delta)
  ctx.oblige("_ogd_update_fn.post.w' = w - lr*g/sqrt(t'+delta)", (w.at((i,)) - new["w"].at((i,))) * s == lr * g.at((i,)))
  ctx.oblige("_ogd_update_fn.post.state-keys", sorted(new.keys()) == ["t", "w"])


def mk_binding(alg):
  """generate_init_update is a FUNCTION of its arguments: the update it returns for a second set of hyper-parameters
  (same shape, algorithm and sketch size) uses those hyper-parameters, not the ones of an earlier call in the same
  process (x delta x learning rate of the property; no hidden memoisation)."""

  def t(ctx, it):
    m = it.load_module(AL)
    n = 3
    lr1, lr2 = spec.fresh_real("lr1"), spec.fresh_real("lr2")
    d1, d2 = spec.fresh_real("delta1", lo=0), spec.fresh_real("delta2", lo=0)
    A = m.Algorithm[alg]
    init1, upd1 = m.generate_init_update((n,), m.HParams(delta=d1, lr=lr1, sketch_size=0, algorithm=A))
    init2, upd2 = m.generate_init_update((n,), m.HParams(delta=d2, lr=lr2, sketch_size=0, algorithm=A))
    i = sk(ctx, "i", n)
    w = T.opaque("w", (n,))
    g = T.opaque("g", (n,))
    if alg == "OGD":
      t0 = spec.fresh_real("t", lo=0)
      new = upd2({"w": w, "t": T.asarray(t0)}, 0.0, g)
      s_ = sym.ssqrt(new["t"].item() + d2)
      ctx.oblige("generate_init_update.post: the second binding uses ITS OWN delta and learning rate (OGD closed form)",
                 (w.at((i,)) - new["w"].at((i,))) * s_ == lr2 * g.at((i,)))
    else:
      st0 = init2()
      ctx.oblige("generate_init_update.post: the second binding initialises with ITS OWN delta (diagonal AdaGrad)",
                 st0["diag_h"].at((i,)) == d2)
      h = T.opaque("h", (n,))
      ctx.assume(h.at((i,)) >= 0)
      new = upd2({"w": w, "diag_h": h}, 0.0, g)
      h1 = h.at((i,)) + g.at((i,)) * g.at((i,))
      ctx.assume(h1 > 0)
      ctx.oblige("generate_init_update.post: the second binding uses ITS OWN learning rate (diagonal AdaGrad closed form)",
                 (w.at((i,)) - new["w"].at((i,))) * sym.ssqrt(h1) == lr2 * g.at((i,)))

  return t


def t_ada(ctx, it):
  m = it.load_module(AL)
  n = spec.fresh_int("n", lo=1)
  lr = spec.fresh_real("lr")
  delta = spec.fresh_real("delta", lo=0)
  hp = m.HParams(delta=delta, lr=lr, sketch_size=0, algorithm=m.Algorithm.ADA)
  init, update = m.generate_init_update((n,), hp)
  st0 = init()
  i = sk(ctx, "i", n)
  ctx.oblige("_diag_adagrad_init_fn.post.w=0,h=delta", sym.sand(st0["w"].at((i,)) == 0, st0["diag_h"].at((i,)) == delta))
  w = T.opaque("w", (n,))
  g = T.opaque("g", (n,))
  h = T.opaque("h", (n,))
  ctx.assume(h.at((i,)) >= 0)
  new = update({"w": w, "diag_h": h}, 0.0, g)
  h1 = h.at((i,)) + g.at((i,)) * g.at((i,))
  ctx.oblige("_diag_adagrad_update_fn.post.h'=h+g^2", new["diag_h"].at((i,)) == h1)
  den = sym.ssqrt(sym.ite(h1 == 0, 1.0, h1))
  ctx.oblige("_diag_adagrad_update_fn.post.w' = w - lr*g/sqrt(h' or 1)", (w.at((i,)) - new["w"].at((i,))) * den == lr * g.at((i,)))


FACTOR = {"S_ADA": 1.0, "RFD_SON": 0.5, "FD_SON": 0.0, "ADA_FD": 0.0}


def mk_fd(alg):

  def t(ctx, it):
    m = it.load_module(AL)
    n = spec.fresh_int("n", lo=2)
    k = spec.fresh_int("k", lo=2)
    ctx.assume(k <= n)
    lr = spec.fresh_real("lr")
    ctx.assume(lr > 0)
    delta = spec.fresh_real("delta", lo=0)
    hp = m.HParams(delta=delta, lr=lr, sketch_size=k, algorithm=m.Algorithm[alg])
    init, update = m.generate_init_update((n,), hp)
    st0 = init()
    i = sk(ctx, "i", n)
    r = sk(ctx, "r", k)
    ctx.oblige("_fd_init_fn.post", sym.sand(st0["w"].at((i,)) == 0, st0["t"].item() == 0, st0["alpha"].item() == delta,
                                            st0["P"].at((r, i)) == 0, st0["e"].at((r,)) == 0))
    w = T.opaque("w", (n,))
    g = T.opaque("g", (n,))
    P = T.opaque("P", (k, n))
    e = T.opaque("e", (k,))
    alpha = spec.fresh_real("alpha", lo=0)
    tt = spec.fresh_real("t", lo=0)
    st = {"w": w, "t": T.asarray(tt), "alpha": T.asarray(alpha), "P": P, "e": e}
    new = update(st, 0.0, g)
    ctx.oblige("_fd_update_fn.post.t'=t+1", new["t"].item() == tt + 1)
    vt = new["P"]
    B = vt.tags.get("svd_of")
    ctx.require("_fd_update_fn.stored-rows-are-the-right-singular-vectors-of-the-updated-sketch", B is not None)
    # the matrix that is decomposed: last row = scaled gradient, the others P[k]*e[k]
    t1 = tt + 1
    if alg == "RFD_SON":
      scale = 1.0 / sym.ssqrt(t1 * lr)
    elif alg == "FD_SON":
      scale = 1.0 / sym.ssqrt(sym.ssqrt(t1) * lr)
    else:
      scale = 1.0
    ctx.oblige("_fd_update_fn.sketch.last-row=gradient*per-algorithm-factor", B.at((k - 1, i)) == g.at((i,)) * scale)
    ctx.oblige("_fd_update_fn.sketch.other-rows=P[r]*e[r]",
               sym.implies(r < k - 1, B.at((r, i)) == P.at((r, i)) * e.at((r,))))
    # singular values: s (opaque, descending, >= 0); rho = s[-1]
    s_t = [x for x in ctx.ghost.get("svd_s", [])]
    s = ctx.ghost["last_svd"][1]
    rho = s.at((k - 1,))
    sr = s.at((r,))
    e_new = new["e"].at((r,))
    ctx.oblige("_fd_update_fn.post.e'[r]^2 = (s[r]-rho)(s[r]+rho) = s[r]^2 - rho^2 >= 0",
               sym.sand(e_new >= 0, e_new * e_new == (sr - rho) * (sr + rho), sr * sr - rho * rho >= 0))
    ctx.oblige("_fd_update_fn.post.last-sketch-eigenvalue-is-zero", new["e"].at((k - 1,)) == 0)
    ctx.oblige("_fd_update_fn.post.alpha' = alpha + f*rho^2", new["alpha"].item() == alpha + FACTOR[alg] * rho * rho,
               detail=f"{alg}: f={FACTOR[alg]}")

  return t


def mk_formula(alg):
  """Update formula at sketch size 2, dimension 3, every entry symbolic."""

  def t(ctx, it):
    m = it.load_module(AL)
    n, k = 3, 2
    lr = spec.fresh_real("lr")
    ctx.assume(lr > 0)
    delta = spec.fresh_real("delta", lo=0)
    hp = m.HParams(delta=delta, lr=lr, sketch_size=k, algorithm=m.Algorithm[alg])
    _, update = m.generate_init_update((n,), hp)
    w = T.opaque("w", (n,))
    g = T.opaque("g", (n,))
    P0 = T.opaque("P", (k, n))
    e0 = T.opaque("e", (k,))
    alpha0 = spec.fresh_real("alpha", lo=0)
    tt = spec.fresh_real("t", lo=0)
    new = update({"w": w, "t": T.asarray(tt), "alpha": T.asarray(alpha0), "P": P0, "e": e0}, 0.0, g)
    V = new["P"]
    s = ctx.ghost["last_svd"][1]
    rho = s.at((k - 1,))
    alpha = new["alpha"].item()
    lr_eff = lr if alg in ("S_ADA", "ADA_FD") else 1.0
    Pg = [sum(V.at((r, j)) * g.at((j,)) for j in range(n)) for r in range(k)]
    for i in range(n):
      if alg == "ADA_FD":
        ev = [new["e"].at((r,)) for r in range(k)]
        dv = [ev[r] / (alpha + ev[r]) for r in range(k)]
        upd = g.at((i,)) - sum(V.at((r, i)) * (dv[r] * Pg[r]) for r in range(k))
        upd = upd * sym.ite(alpha <= 0, 0.0, 1.0 / alpha)
      else:
        sv = [(s.at((r,)) - rho) * (s.at((r,)) + rho) for r in range(k)]
        ee = [alpha + sv[r] for r in range(k)]
        if alg == "S_ADA":
          inv = lambda x: sym.ite(x <= 0, 0.0, 1.0 / sym.ssqrt(x))
        else:
          inv = lambda x: sym.ite(x <= 0, 0.0, 1.0 / x)
        inv_s = [inv(x) for x in ee]
        inv_a = inv(alpha)
        outside = g.at((i,)) - sum(V.at((r, i)) * Pg[r] for r in range(k))
        sk_ = sum(V.at((r, i)) * (inv_s[r] * Pg[r]) for r in range(k))
        upd = sk_ + inv_a * outside
      ctx.oblige("_fd_update_fn.post.w' = w - lr*(P'(inv_s o P g) + inv_alpha (g - P'P g))  [Ada-FD: its own form]",
                 new["w"].at((i,)) == w.at((i,)) - lr_eff * upd, detail=f"{alg} coordinate {i}")

  return t


def tasks(tier):
  extra_binding = [Task(f"generate_init_update binds its own hyper-parameters[{a}]", mk_binding(a)) for a in ("OGD", "ADA")]
  return extra_binding + _tasks(tier)


def _tasks(tier):
  ts = [Task("OGD", t_ogd), Task("ADA", t_ada)]
  for alg in FACTOR:
    ts.append(Task(f"FD step[{alg}]", mk_fd(alg)))
    ts.append(Task(f"FD update formula[{alg}]", mk_formula(alg)))
  return ts


def main(tier):
  return H.standard_main(PID, tier, tasks(tier), not_covered=NOT_COVERED,
                         structural=["OGD, ADA: symbolic dimension", "4 sketched algorithms: symbolic dimension and sketch size (P2); size (2,3) for the update formula (P3)"])
