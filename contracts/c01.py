"""C01 — inverse p-th root routines: definedness, zero padding, what the error figure is.

P1  definedness / no internal error of matrix_inverse_pth_root (Newton and eigh) for every matrix size >= 1, exponent
    p >= 1, relative/absolute ridge, padding None / symbolic: every name read is bound on every path, every internal
    assertion holds (loops abstracted by their invariants).
P2  padding rows / columns of the Newton result are exactly zero: Pad(M) := M[i,j] = 0 whenever i >= ps or j >= ps,
    as loop invariants of mat_power, the inner Newton loop and the retry loop (pointwise at a Skolem padding index,
    matmul zero-term rule); padding_start == 0 gives the all-zero matrix with error 0.
P3' what the reported figure is: error = max_ij |M - I_masked| of the final tracked matrix (a maximum of absolute values,
    hence >= 0), the retry loop's ridge is ridge_epsilon * max(max_ev, 1e-25) * 10^i on the masked identity, and the
    returned matrix is the convergence blend of the last two iterates.
"""
from __future__ import annotations

import z3

from pyvc import ctx as C
from pyvc import harness as H
from pyvc import interp as I
from pyvc import spec
from pyvc import sym
from pyvc import tensor as T
from pyvc.harness import Task
from pyvc.sym import SBool, SInt, SReal

PID = "C01"
DS = "precondition.distributed_shampoo"
Q = "matrix_inverse_pth_root"

NOT_COVERED = [
    "convergence and rounding behaviour (that the error figure actually gets below the threshold; slack proportional to the condition number)",
    "P3 (honest error) is proved on COMMUTING TOKENS (task 'newton residual algebra': the real _iter_body/_outer_body_fn on 1x1 tensors, "
    "every iterate being a polynomial in A + dI) in exact arithmetic; the matrix-level statement additionally needs that matmul of "
    "commuting matrices is associative/commutative (cited) and says nothing about float rounding",
    "mat_power's functional contract (result = M^p) is proved for symbolic p on 1x1 matrices; for n x n only its padding contract",
    "the eigh route's residual-to-accuracy implication and its exact zeros on padding (depend on LAPACK's output for a block-diagonal input)",
    "LOBPCG deflation: only WHAT is reported on that route is proved (lobpcg_standard is an opaque contract); that a Rayleigh quotient of a unit vector is <= lambda_max (cited lemma; the estimate IS such a quotient: tasks power_iteration *); float32 compute dtype effects",
]


def pad_tensor(ctx, name, n, ps):
  """A matrix that satisfies Pad by construction (structured havoc)."""
  t = T.opaque(name, (n, n))
  base = t._fn

  def fn(idx):
    i, j = idx
    v = base(idx)
    if ps is None:
      return v
    return sym.ite(sym.sand(i < ps, j < ps), v, 0.0)

  t._fn = fn
  return t


def pad_claim(ctx, t, n, ps, label):
  """Claim Pad(t) at a fresh Skolem padding index."""
  if ps is None:
    return True
  a = spec.fresh_int("pa_" + label)
  b = spec.fresh_int("pb_" + label)
  inr = sym.sand(a >= 0, a < n, b >= 0, b < n)
  return sym.implies(sym.sand(inr, sym.sor(a >= ps, b >= ps)), t.at((a, b)) == 0)


def masked_eye(n, ps):
  def fn(idx):
    i, j = idx
    if ps is None:
      return sym.ite(i == j, 1.0, 0.0)
    return sym.ite(sym.sand(i == j, j < ps), 1.0, 0.0)
  return T.Tensor((n, n), T.float32, fn)


def install_mat_power_contract(ctx, it, n, ps, p):
  """Modular use of mat_power: requires Pad(mat) (checked at the call), ensures Pad(result) for p >= 1.
  The body is verified against this contract in task `mat_power`."""

  def contract(interp, fn, args, kwargs):
    mat, pp = args[0], args[1]
    ctx.oblige("mat_power.pre.Pad(mat)", pad_claim(ctx, mat, n, ps, "mpre"), kind="contract-pre")
    return pad_tensor(ctx, "mat_power_result", mat.shape[0], ps)

  it.call_contracts["mat_power"] = contract


def t_mat_power(ctx, it):
  m = it.load_module(DS)
  n = spec.fresh_int("n", lo=1)
  ps = spec.fresh_int("padding_start", lo=0)
  ctx.assume(ps <= n)
  p = spec.fresh_int("p", lo=1)
  mat0 = pad_tensor(ctx, "mat", n, ps)

  def havoc(env, k):
    i = spec.fresh_int("i_mp")
    flag = spec.fresh_bool("power_is_pad")
    ctx.assume(sym.sor(flag, i > 0))
    padp = pad_tensor(ctx, "power", n, ps)
    power = T.Tensor((n, n), T.float32,
                     lambda idx: sym.ite(flag, padp.at(idx), sym.ite(idx[0] == idx[1], 1.0, 0.0)))
    env["state"] = (T.asarray(i), power, pad_tensor(ctx, "matk", n, ps))
    env["_flag"] = flag

  def inv(env, k):
    i, power, mat = env["state"]
    iv = i.item() if isinstance(i, T.Tensor) else i
    a = spec.fresh_int("ea")
    b = spec.fresh_int("eb")
    inr = sym.sand(a >= 0, a < n, b >= 0, b < n)
    is_eye = sym.implies(inr, power.at((a, b)) == sym.ite(a == b, 1.0, 0.0))
    return sym.sand(pad_claim(ctx, mat, n, ps, "m"),
                    sym.sor(pad_claim(ctx, power, n, ps, "p"), sym.sand(is_eye, iv > 0)))

  it.loop_contracts[("lax.while_loop", "mat_power.<locals>._iter_body")] = I.LoopContract(inv, havoc, "mat_power.loop")
  res = m.mat_power(mat0, p)
  ctx.oblige("mat_power.post.Pad(result) for p >= 1", pad_claim(ctx, res, n, ps, "r"))
  ctx.oblige("mat_power.post.shape", len(res.shape) == 2 and sym.prove(sym.sand(res.shape[0] == n, res.shape[1] == n)))


def t_mat_power_value(ctx, it):
  """mat_power(M, p) = M^p: functional contract of the square-and-multiply loop, proved for symbolic p >= 0 on 1x1
  matrices (scalar algebra; the loop structure does not depend on the size).  ipow is the spec power, used through
  the three binary-exponentiation identities (lemmas/Spec.lean: ipow_zero / ipow_even / ipow_odd), instantiated at
  the loop state."""
  m = it.load_module(DS)
  p = spec.fresh_int("p", lo=0)
  m0 = spec.fresh_real("m")
  ipow = z3.Function("ipow", z3.RealSort(), z3.IntSort(), z3.RealSort())
  ctx.axioms_used.add("ipow(x,0)=1, ipow(x,2k)=ipow(x*x,k), ipow(x,2k+1)=x*ipow(x*x,k)  (Lean: lemmas/Spec.lean)")

  def P(x, k):
    return SReal(ipow(sym._as_real_z(x), sym._as_int_z(k)))

  def one(v):
    return T.Tensor((1, 1), T.float32, lambda idx: v)

  def havoc(env, k):
    i = spec.fresh_int("i_mp", lo=0)
    pw = spec.fresh_real("power")
    mt = spec.fresh_real("matk")
    env["state"] = (T.asarray(i), one(pw), one(mt))
    # instances of the spec-power identities at this state
    half = i // 2
    ctx.assume(sym.implies(i == 0, P(mt, i) == 1.0))
    ctx.assume(sym.implies(sym.sand(i > 0, i % 2 == 0), P(mt, i) == P(mt * mt, half)))
    ctx.assume(sym.implies(i % 2 == 1, P(mt, i) == mt * P(mt * mt, half)))
    ctx.assume(P(mt * mt, 0) == 1.0)

  def inv(env, k):
    i, power, mat = env["state"]
    iv = i.item() if isinstance(i, T.Tensor) else i
    return sym.sand(iv >= 0, power.at((0, 0)) * P(mat.at((0, 0)), iv) == P(m0, p))

  it.loop_contracts[("lax.while_loop", "mat_power.<locals>._iter_body")] = I.LoopContract(inv, havoc, "mat_power.value")
  res = m.mat_power(one(m0), p)
  ctx.oblige("mat_power.post.result = M^p (1x1, symbolic p)", res.at((0, 0)) == P(m0, p))


def t_residual_algebra(ctx, it):
  """P3 - honesty of the error figure (DESIGN 7/C01-P3, 'commutative-algebra tokens'): every iterate of the coupled
  Newton iteration is a polynomial in the damped matrix A_d, so all of them commute and the tracked-residual identity
  M = X^p A_d is an identity of a COMMUTATIVE algebra.  The real `_iter_body` / `_outer_body_fn` are executed on
  commuting tokens (1x1 tensors, reached through the nested functions directly: the size-1 shortcut of the routine
  is not taken) with the spec power ipow and mat_power under its contract (task 'mat_power value'):
    inner invariant   mat_m = ipow(mat_h, p) * A_d,  error = |mat_m - 1|,  ratio * |ipow(old_mat_h, p) * A_d - 1| = error
    post of a retry   |ipow(X, p) * A_d - 1| <= reported error          (X = the returned iterate)."""
  m = it.load_module(DS)
  p = spec.fresh_int("p", lo=1)
  A = spec.fresh_real("A")
  eps = spec.fresh_real("ridge_epsilon", lo=0)
  retry = spec.fresh_int("retry", lo=0)
  ipow = z3.Function("ipow", z3.RealSort(), z3.IntSort(), z3.RealSort())
  ctx.axioms_used.add("ipow(x*y,p)=ipow(x,p)*ipow(y,p) (commuting tokens; Lean Spec.ipow_mul), ipow(z^(1/p),p)=z for z>0 (real p-th root)")

  def P(x):
    return SReal(ipow(sym._as_real_z(x), p.z))

  def one(v):
    return T.Tensor((1, 1), T.float32, lambda idx: v)

  def sc(t):
    return t.at((0, 0)) if isinstance(t, T.Tensor) and len(t.shape) == 2 else (t.item() if isinstance(t, T.Tensor) else t)

  Ad = A + eps * sym.spow(10, retry)
  cur_state = {}

  def mat_power_contract(interp, fn, args, kwargs):
    x = sc(args[0])
    if "mat_h" in cur_state:
      # instance of ipow_mul (commuting tokens) at the operand actually used: (mat_h * x)^p = mat_h^p * x^p
      ctx.assume(P(cur_state["mat_h"] * x) == P(cur_state["mat_h"]) * P(x))
    return one(P(x))

  it.call_contracts["mat_power"] = mat_power_contract

  def res(x):
    return abs(P(x) * Ad - 1.0)

  def inv_claim(st):
    i, mm, mh, oh, err, ratio = [sc(x) for x in st]
    return sym.sand(mm == P(mh) * Ad, err == abs(mm - 1.0), ratio * res(oh) == err)

  alpha = -1.0 / p
  env = dict(alpha=alpha, identity=one(1.0), p=p, precision=None)
  body = it.make_nested(DS, Q + ".<locals>._iter_body", env)
  tol = spec.fresh_real("error_tolerance", lo=0)
  cond = it.make_nested(DS, Q + ".<locals>._iter_condition", dict(error_tolerance=tol, max_error_ratio=1.2, num_iters=spec.fresh_int("num_iters", lo=0)))

  def fresh_state(tag):
    return (T.asarray(spec.fresh_int("it" + tag, lo=0)), one(spec.fresh_real("mat_m" + tag)), one(spec.fresh_real("mat_h" + tag)),
            one(spec.fresh_real("old_mat_h" + tag)), T.asarray(spec.fresh_real("err" + tag)), T.asarray(spec.fresh_real("ratio" + tag)))

  # one retry-loop body with the inner loop under its invariant
  captured = {}

  def havoc_inner(env_, k):
    st = fresh_state("_f")
    captured["final"] = st
    env_["state"] = st
    cur_state["mat_h"] = sc(st[2])

  def inv_inner(env_, k):
    return inv_claim(env_["state"])

  it.loop_contracts[("lax.while_loop", Q + ".<locals>._iter_body")] = I.LoopContract(inv_inner, havoc_inner, "newton.inner.residual")
  n_pow = len(ctx.ghost.setdefault("pow_calls", []))
  ctx.assume(Ad > 0)    # A + dI is positive definite (PSD input, ridge > 0): its Frobenius norm is non-zero
  # the Frobenius norm of the (non-zero) damped matrix is some positive scalar in the token abstraction
  nu = spec.fresh_real("frobenius_norm_of_damped_matrix")
  ctx.assume(nu > 0)
  mod_jnp = m.__env__.vars["jnp"]
  import types
  jnp_proxy = types.SimpleNamespace(**vars(mod_jnp))
  jnp_proxy.linalg = types.SimpleNamespace(**vars(mod_jnp.linalg))
  jnp_proxy.linalg.norm = lambda x, *a, **k: T.asarray(nu)
  outer = it.make_nested(DS, Q + ".<locals>._outer_body_fn",
                         dict(matrix=one(A), ridge_epsilon=eps, identity=one(1.0), p=p, _iter_condition=cond, _iter_body=body,
                              max_error_ratio=1.2, precision=None, retry_loop_error_threshold=0.05, jnp=jnp_proxy))
  # the p-th root used to seed mat_h: ipow(z^(1/p), p) = z
  st0 = (T.asarray(retry), one(1.0), T.asarray(1000.0), T.asarray(100), T.asarray(1.0), T.asarray(True))
  # instantiate the root axiom lazily: every rpow term created by the body satisfies ipow(rpow(z, 1/p), p) = z for z > 0
  orig_spow = sym.spow

  def spow_with_axiom(base, ex):
    r = orig_spow(base, ex)
    if isinstance(r, sym.Sym) and sym.prove(ex * p == 1):
      ctx.assume(sym.implies(base > 0, P(r) == base))
    return r

  sym.spow = spow_with_axiom
  try:
    out = outer(st0)
  finally:
    sym.spow = orig_spow
  X, err = sc(out[1]), sc(out[2])
  ctx.oblige(f"{Q}.P3.honest error: | X^p (A + dI) - I | <= reported error for the returned iterate X (commuting tokens)",
             res(X) <= err)
  ctx.oblige(f"{Q}.P3.retry counter", sc(out[0]) == retry + 1)


PI = "power_iteration"


def t_pi_body(ctx, it):
  """power_iteration._iter_body: the new eigenvalue estimate is the Rayleigh quotient u' A u of the NORMALISED
  incoming vector u = v / |v| (structure of the two contractions, checked at Skolem indices)."""
  m = it.load_module(DS)
  n = spec.fresh_int("n", lo=1)
  A = T.opaque("A", (n, n))
  tol = spec.fresh_real("error_tolerance", lo=0)
  body = it.make_nested(DS, PI + ".<locals>._iter_body", dict(matrix=A, precision=None, error_tolerance=tol))
  v = T.opaque("v", (n,))
  s_old = spec.fresh_real("s")
  i0 = spec.fresh_int("i", lo=0)
  n_con = len(ctx.ghost.setdefault("contractions", []))
  n_red = len(ctx.ghost.setdefault("reduce_calls", []))
  out = body((T.asarray(i0), v, T.asarray(s_old), T.opaque("s_v", (n,)), T.asarray(True)))
  cons = ctx.ghost["contractions"][n_con:]
  norms = [r for r in ctx.ghost["reduce_calls"][n_red:] if r.kind == "norm"]
  ctx.require(f"{PI}._iter_body.structure: one norm, two contractions", len(norms) == 1 and len(cons) == 2)
  k = spec.fresh_int("k")
  j = spec.fresh_int("j")
  ctx.assume(sym.sand(k >= 0, k < n, j >= 0, j < n))
  nv = norms[0].value(())
  ctx.oblige(f"{PI}._iter_body.the norm ranges over the incoming vector", norms[0].x.at((k,)) == v.at((k,)))
  u = lambda a: v.at((a,)) / nv
  c1, c2 = cons
  ctx.oblige(f"{PI}._iter_body.s_v = A u with u = v/|v| (term of the first contraction)", c1.term_fn((k,), (j,)) == A.at((k, j)) * u(j))
  ctx.oblige(f"{PI}._iter_body.s_new = u . (A u) (term of the second contraction)", c2.term_fn((), (k,)) == u(k) * c1.value((k,)))
  ctx.oblige(f"{PI}._iter_body.post: the new estimate IS that Rayleigh quotient; the next vector is A u; counter + 1",
             sym.sand(out[2].item() == c2.value(()), out[1].at((k,)) == c1.value((k,)), out[0].item() == i0 + 1))
  ctx.oblige(f"{PI}._iter_body.post: continue iff the estimate moved by more than the tolerance",
             T.OPS.truth(out[4].item()) == (abs(c2.value(()) - s_old) > tol))


def mk_pi_result(padded):
  """power_iteration returns the estimate held by the loop state, UNCHANGED (0 if no iteration ran): with the cited
  Rayleigh bound (u' A u <= lambda_max for unit u, symmetric A) the estimate never exceeds the largest eigenvalue."""

  def t(ctx, it):
    m = it.load_module(DS)
    n = spec.fresh_int("n", lo=1)
    A = T.opaque("A", (n, n))
    S = spec.fresh_real("s_final")
    fin = {}

    def havoc(env, k):
      st = (T.asarray(spec.fresh_int("i_f", lo=0)), T.opaque("v_f", (n,)), T.asarray(S), T.opaque("sv_f", (n,)), T.asarray(spec.fresh_bool("run")))
      fin["state"] = st
      env["state"] = st

    entry = {}

    def inv(env, k):
      entry.setdefault("init", env["state"])
      return True

    it.loop_contracts[("lax.while_loop", PI + ".<locals>._iter_body")] = I.LoopContract(inv, havoc, "power_iteration.loop")
    ps = None
    if padded:
      psv = spec.fresh_int("padding_start", lo=0)
      ctx.assume(psv <= n)
      ps = T.asarray(psv)
    v_out, s_out = m.power_iteration(A, padding_start=ps)
    init = entry["init"]
    ctx.oblige(f"{PI}.post: the loop starts from estimate 0 (<= lambda_max of a PSD matrix) and counter 0",
               sym.sand(init[2].item() == 0, init[0].item() == 0))
    sv = s_out.item() if isinstance(s_out, T.Tensor) else s_out
    ctx.oblige(f"{PI}.post: the returned eigenvalue estimate is the loop's Rayleigh quotient, unchanged", sv == S)
    if padded:
      k = spec.fresh_int("k0")
      ctx.assume(sym.sand(k >= 0, k < n))
      ctx.oblige(f"{PI}.post: the start vector is zero on padding", sym.implies(k >= psv, init[1].at((k,)) == 0))

  return t


def install_newton_invariants(ctx, it, n, ps):

  def havoc_inner(env, k):
    env["state"] = (T.asarray(spec.fresh_int("it", lo=0)), pad_tensor(ctx, "mat_m", n, ps), pad_tensor(ctx, "mat_h", n, ps),
                    pad_tensor(ctx, "old_mat_h", n, ps), T.asarray(spec.fresh_real("err", lo=0)),
                    T.asarray(spec.fresh_real("err_ratio")))

  def inv_inner(env, k):
    st = env["state"]
    return sym.sand(pad_claim(ctx, st[1], n, ps, "im"), pad_claim(ctx, st[2], n, ps, "ih"), pad_claim(ctx, st[3], n, ps, "io"))

  it.loop_contracts[("lax.while_loop", Q + ".<locals>._iter_body")] = I.LoopContract(inv_inner, havoc_inner, "newton.inner")

  def havoc_outer(env, k):
    env["state"] = (T.asarray(spec.fresh_int("retry", lo=0)), pad_tensor(ctx, "resultant", n, ps),
                    T.asarray(spec.fresh_real("o_err", lo=0)), T.asarray(spec.fresh_int("o_iters", lo=0)),
                    T.asarray(spec.fresh_real("o_ratio")), T.asarray(spec.fresh_bool("failed")))

  def inv_outer(env, k):
    st = env["state"]
    e = st[2].item() if isinstance(st[2], T.Tensor) else st[2]
    return sym.sand(pad_claim(ctx, st[1], n, ps, "or"), e >= 0)

  it.loop_contracts[("lax.while_loop", Q + ".<locals>._outer_body_fn")] = I.LoopContract(inv_outer, havoc_outer, "newton.retry")


def pi_contract(ctx):
  def c_(interp, fn, args, kwargs):
    mat = kwargs.get("matrix", args[0] if args else None)
    ev = spec.fresh_real("max_ev")
    ctx.ghost["pi_max_ev"] = ev
    return T.opaque("pi_v", (mat.shape[0],)), T.asarray(ev)
  return c_


def mk_newton(rel_eps, padded):

  def t(ctx, it):
    m = it.load_module(DS)
    n = spec.fresh_int("n", lo=1)
    ps = None
    if padded:
      ps = spec.fresh_int("padding_start", lo=0)
      ctx.assume(ps <= n)
    p = spec.fresh_int("p", lo=1)
    A = T.opaque("A", (n, n))
    it.call_contracts["power_iteration"] = pi_contract(ctx)
    install_mat_power_contract(ctx, it, n, ps, p)
    install_newton_invariants(ctx, it, n, ps)
    eps = spec.fresh_real("ridge_epsilon", lo=0)
    res, metrics = m.matrix_inverse_pth_root(A, p, ridge_epsilon=eps, relative_matrix_epsilon=rel_eps,
                                             padding_start=(T.asarray(ps) if padded else None))
    tag = Q
    ctx.require(f"{tag}.post.shape", len(res.shape) == 2 and sym.prove(sym.sand(res.shape[0] == n, res.shape[1] == n)))
    ctx.oblige(f"{tag}.P2.padding-rows-and-columns-of-the-result-are-exactly-zero", pad_claim(ctx, res, n, ps, "res"))
    err = metrics.inverse_pth_root_errors.item()
    ctx.oblige(f"{tag}.P3'.reported-error-is-non-negative (a max of absolute values)", err >= 0)
    if padded:
      a = spec.fresh_int("za")
      b = spec.fresh_int("zb")
      ctx.assume(sym.sand(a >= 0, a < n, b >= 0, b < n))
      ctx.oblige(f"{tag}.P2.all-padding (padding_start = 0) gives the zero matrix with error 0",
                 sym.implies(ps == 0, sym.sand(res.at((a, b)) == 0, err == 0)))

  return t


def mk_lobpcg(padded):
  """LOBPCG-deflated route, what is REPORTED (P3' for this route): the error figure returned is the residual of the
  RETURNED matrix against the unconditioned A + dI (max of the diagonal and off-diagonal diagnostics), 0 for an
  all-padding input - not the Newton figure of the deflated sub-problem.  lobpcg_standard enters as an opaque
  contract (k eigenvalues, n x k vectors, an iteration count)."""

  def t(ctx, it):
    m = it.load_module(DS)
    k = 2
    n = spec.fresh_int("n", lo=3)
    ps = None
    if padded:
      ps = spec.fresh_int("padding_start", lo=0)
      ctx.assume(ps <= n)
    p = spec.fresh_int("p", lo=1)
    A = T.opaque("A", (n, n))
    it.call_contracts["power_iteration"] = pi_contract(ctx)
    # the padding invariant is not the claim here (and needs LOBPCG's vectors to vanish on padding rows): the loops are
    # abstracted by arbitrary states, mat_power by an opaque result
    it.call_contracts["mat_power"] = lambda interp, fn, args, kwargs: T.opaque("mat_power_result", args[0].shape)

    def havoc_in(env, k_):
      env["state"] = (T.asarray(spec.fresh_int("it", lo=0)), T.opaque("mat_m", (n, n)), T.opaque("mat_h", (n, n)), T.opaque("old_mat_h", (n, n)),
                      T.asarray(spec.fresh_real("err", lo=0)), T.asarray(spec.fresh_real("err_ratio")))

    def havoc_out(env, k_):
      env["state"] = (T.asarray(spec.fresh_int("retry", lo=0)), T.opaque("resultant", (n, n)), T.asarray(spec.fresh_real("o_err", lo=0)),
                      T.asarray(spec.fresh_int("o_iters", lo=0)), T.asarray(spec.fresh_real("o_ratio")), T.asarray(spec.fresh_bool("failed")))

    it.loop_contracts[("lax.while_loop", Q + ".<locals>._iter_body")] = I.LoopContract(lambda env, k_: True, havoc_in, "newton.inner.any")
    it.loop_contracts[("lax.while_loop", Q + ".<locals>._outer_body_fn")] = I.LoopContract(lambda env, k_: True, havoc_out, "newton.retry.any")
    mod_linalg = m.__env__.vars["linalg"]
    import types
    ctx.axioms_used.add("lobpcg_standard: opaque (eigenvalues (k,), eigenvectors (n,k), iteration count)")
    m.__env__.vars["linalg"] = types.SimpleNamespace(
        lobpcg_standard=lambda mat, dirs, iters: (T.opaque("lobpcg_w", (k,)), T.opaque("lobpcg_v", (n, k)), T.asarray(spec.fresh_int("lobpcg_iters", lo=0))))
    try:
      eps = spec.fresh_real("ridge_epsilon", lo=0)
      res, metrics = m.matrix_inverse_pth_root(A, p, ridge_epsilon=eps, relative_matrix_epsilon=True,
                                               padding_start=(T.asarray(ps) if padded else None), lobpcg_topk_precondition=k)
    finally:
      m.__env__.vars["linalg"] = mod_linalg
    diag = metrics.inverse_pth_root_diagnostics
    want = sym.smax(diag.max_diag_error.item(), diag.max_off_diag_error.item())
    err = metrics.inverse_pth_root_errors.item()
    if padded:
      want = sym.ite(ps == 0, 0.0, want)
    ctx.oblige(f"{Q}.P3'.LOBPCG route: the reported error is the residual of the returned matrix against the UNCONDITIONED A + dI "
               "(max of the diagonal / off-diagonal diagnostics; 0 for an all-padding input)", err == want)

  return t


def t_outer_body(ctx, it):
  """One retry-loop body: ridge formula, what `error` is, the convergence blend (P3')."""
  m = it.load_module(DS)
  n = spec.fresh_int("n", lo=2)
  ps = spec.fresh_int("padding_start", lo=1)
  ctx.assume(ps <= n)
  p = spec.fresh_int("p", lo=1)
  A = T.opaque("A", (n, n))
  max_ev = spec.fresh_real("max_ev")
  it.call_contracts["power_iteration"] = lambda interp, fn, args, kwargs: (T.opaque("v", (n,)), T.asarray(max_ev))
  install_mat_power_contract(ctx, it, n, ps, p)
  captured = {}

  def havoc_inner(env, k):
    st = (T.asarray(spec.fresh_int("it", lo=0)), pad_tensor(ctx, "mat_m", n, ps), pad_tensor(ctx, "mat_h", n, ps),
          pad_tensor(ctx, "old_mat_h", n, ps), T.asarray(spec.fresh_real("err", lo=0)), T.asarray(spec.fresh_real("err_ratio")))
    captured.setdefault("init", env["state"])
    captured["final"] = st
    env["state"] = st

  it.loop_contracts[("lax.while_loop", Q + ".<locals>._iter_body")] = I.LoopContract(lambda env, k: True, havoc_inner, "newton.inner")
  retry = spec.fresh_int("retry_index", lo=0)

  def havoc_outer(env, k):
    env["state"] = (T.asarray(retry), pad_tensor(ctx, "resultant", n, ps), T.asarray(spec.fresh_real("o_err", lo=0)),
                    T.asarray(spec.fresh_int("o_iters", lo=0)), T.asarray(spec.fresh_real("o_ratio")), T.asarray(spec.fresh_bool("failed")))

  post = {}

  def inv_outer(env, k):
    post["state"] = env["state"]
    post["calls"] = post.get("calls", 0) + 1
    return True

  it.loop_contracts[("lax.while_loop", Q + ".<locals>._outer_body_fn")] = I.LoopContract(inv_outer, havoc_outer, "newton.retry")
  eps = spec.fresh_real("ridge_epsilon", lo=0)
  try:
    m.matrix_inverse_pth_root(A, p, ridge_epsilon=eps, relative_matrix_epsilon=True, padding_start=T.asarray(ps))
  except C.PathEnd:
    pass
  if "final" not in captured or "init" not in captured or post.get("calls") != 3:
    raise C.PathEnd()   # only the path that ran one whole retry-loop body (inner loop on its exit path) carries the claims
  i = spec.fresh_int("i")
  j = spec.fresh_int("j")
  ctx.assume(sym.sand(i >= 0, i < n, j >= 0, j < n))
  ctx.index_points.append((i, j))
  Imask = masked_eye(n, ps)
  Am = sym.ite(sym.sand(i < ps, j < ps), A.at((i, j)), 0.0)
  d = eps * sym.smax(max_ev, 1e-25)
  init = captured["init"]
  # initial tracked matrix = (A_masked + d*10^retry*I_masked) * z
  pow10 = sym.spow(10, retry)
  damped = Am + (d * pow10) * Imask.at((i, j))
  m0 = init[1].at((i, j))
  nrm = [r for r in ctx.ghost.get("reduce_calls", []) if r.kind == "norm"][-1]
  z = (1 + p) / (2 * nrm.value(()))
  ctx.oblige(f"{Q}.P3'.retry i starts from (A + ridge_epsilon*max(max_ev,1e-25)*10^i * I) * z on the masked identity", m0 == damped * z)
  y = (spec.fresh_int("yi"), spec.fresh_int("yj"))
  ctx.assume(sym.sand(y[0] >= 0, y[0] < n, y[1] >= 0, y[1] < n))
  Ay = sym.ite(sym.sand(y[0] < ps, y[1] < ps), A.at(y), 0.0)
  ctx.oblige(f"{Q}.P3'.z normalises by the Frobenius norm of the damped matrix", nrm.x.at(y) == Ay + (d * pow10) * Imask.at(y))
  # after the inner loop
  st = post["state"]
  fin = captured["final"]
  err = st[2].item()
  red = [r for r in ctx.ghost.get("reduce_calls", []) if r.kind == "max"][-1]
  ctx.oblige(f"{Q}.P3'.error-ranges-over |mat_m - I_masked| of the final iterate", red.x.at(y) == abs(fin[1].at(y) - Imask.at(y)))
  ctx.oblige(f"{Q}.P3'.error >= |mat_m - I|[i,j] for every entry (it is a maximum)", err >= abs(fin[1].at((i, j)) - Imask.at((i, j))))
  ratio = fin[5].item()
  blend = sym.ite(ratio < 1.2, fin[2].at((i, j)), fin[3].at((i, j)))
  ctx.oblige(f"{Q}.P3'.returned iterate = mat_h if the last error ratio < 1.2 else the previous mat_h", st[1].at((i, j)) == blend)
  ctx.oblige(f"{Q}.P3'.retry counter + 1 and retry iff error > 0.05",
             sym.sand(st[0].item() == retry + 1, T.OPS.truth(st[5].item()) == (err > 0.05)))


def mk_eigh(rel_eps, padded):

  def t(ctx, it):
    m = it.load_module(DS)
    n = spec.fresh_int("n", lo=1)
    ps = None
    if padded:
      ps = spec.fresh_int("padding_start", lo=0)
      ctx.assume(ps <= n)
    p = spec.fresh_int("p", lo=1)
    A = T.opaque("A", (n, n))
    it.call_contracts["power_iteration"] = pi_contract(ctx)
    n_pow = len(ctx.ghost.setdefault("pow_calls", []))
    n_con = len(ctx.ghost.setdefault("contractions", []))
    eps = spec.fresh_real("ridge_epsilon")
    ctx.assume(eps >= 0)      # matrix_epsilon = 0 is an accepted configuration
    res, metrics = m.matrix_inverse_pth_root(A, p, ridge_epsilon=eps, relative_matrix_epsilon=rel_eps,
                                             padding_start=(T.asarray(ps) if padded else None), eigh=True)
    # definedness of the real power: x ** (-1/p) needs x > 0.  The eigenvalues returned by eigh are arbitrary reals here
    # (round-off can make them slightly negative, a singular input with no ridge leaves zeros), so the routine itself must
    # keep every undefined power out of the result: in each product that builds the root, a direction whose clamped
    # eigenvalue is not positive contributes exactly 0, and with a positive ridge no base is non-positive at all.
    i0, j0, k = spec.fresh_int("i_eig"), spec.fresh_int("j_eig"), spec.fresh_int("k_eig")
    ctx.assume(sym.sand(i0 >= 0, i0 < n, j0 >= 0, j0 < n, k >= 0, k < n))
    seen_pows = 0
    for con in list(ctx.ghost["contractions"][n_con:]):
      if len(con.contracted) != 1:
        continue
      n0 = len(ctx.ghost["pow_calls"])
      try:
        term = con.term_fn((i0, j0), (k,))
      except Exception:  # pylint: disable=broad-except
        continue
      for base, expo, site in ctx.ghost["pow_calls"][n0:]:
        seen_pows += 1
        ctx.oblige(f"{Q}_eigh.definedness: a direction whose clamped eigenvalue is not positive contributes exactly 0 to the root "
                   "(no undefined inverse power reaches the result), whatever eigh returns and also for ridge_epsilon = 0",
                   sym.implies(base <= 0, term == 0), detail=site)
        ctx.oblige(f"{Q}_eigh.definedness: the base of every inverse p-th power is positive (ridge_epsilon > 0), whatever eigh returns",
                   sym.implies(eps > 0, base > 0), detail=site)
    ctx.require(f"{Q}_eigh.some-power-is-taken", seen_pows >= 1)
    # the padding mask on the eigenvalues (the first n - padding_start of the ASCENDING spectrum are zeroed) is only right
    # if every real direction already carries the ridge when the matrix is decomposed: what is handed to eigh must be the
    # masked input PLUS ridge times the masked identity (then the padding zeros are the smallest eigenvalues - cited)
    eg = ctx.ghost.get("eighs", [])
    ctx.require(f"{Q}_eigh.structure: one eigendecomposition", len(eg) >= 1)
    xop = eg[-1][0]
    ev_sym = ctx.ghost.get("pi_max_ev")
    tol = 1e-6
    ridge = eps * (sym.smax(ev_sym, tol) if (rel_eps and ev_sym is not None) else sym.smax(1.0, tol))
    inside = sym.sand(i0 < ps, j0 < ps) if padded else True
    Am = sym.ite(inside, A.at((i0, j0)), 0.0) if padded else A.at((i0, j0))
    Idm = sym.ite(sym.sand(i0 == j0, (i0 < ps) if padded else True), 1.0, 0.0)
    ctx.oblige(f"{Q}_eigh.P2'.the decomposed matrix is the masked input + ridge * masked identity (ridge = ridge_epsilon * max(max_ev, tol) "
               "when relative), so that padding eigenvalues are the smallest", xop.at((i0, j0)) == Am + ridge * Idm)
    ctx.require(f"{Q}_eigh.post.shape", len(res.shape) == 2 and sym.prove(sym.sand(res.shape[0] == n, res.shape[1] == n)))
    err = metrics.inverse_pth_root_errors.item()
    ctx.oblige(f"{Q}_eigh.P3'.reported-error-is-non-negative (a max of absolute values)", err >= 0)
    if padded:
      a = spec.fresh_int("za")
      b = spec.fresh_int("zb")
      ctx.assume(sym.sand(a >= 0, a < n, b >= 0, b < n))
      ctx.oblige(f"{Q}_eigh.P2.all-padding (padding_start = 0) gives the zero matrix with error 0",
                 sym.implies(ps == 0, sym.sand(res.at((a, b)) == 0, err == 0)))

  return t


def tasks(tier):
  ts = [Task("mat_power", t_mat_power), Task("mat_power value", t_mat_power_value), Task("newton retry body", t_outer_body),
        Task("newton residual algebra (honest error)", t_residual_algebra),
        Task("newton with LOBPCG deflation: reported error[padded]", mk_lobpcg(True)),
        Task("newton with LOBPCG deflation: reported error[unpadded]", mk_lobpcg(False)),
        Task("power_iteration body", t_pi_body), Task("power_iteration result[padded]", mk_pi_result(True)),
        Task("power_iteration result[unpadded]", mk_pi_result(False))]
  for rel in (True, False):
    for pad in (True, False):
      ts.append(Task(f"newton[relative_eps={rel},padded={pad}]", mk_newton(rel, pad)))
      ts.append(Task(f"eigh[relative_eps={rel},padded={pad}]", mk_eigh(rel, pad)))
  return ts


def main(tier):
  extra = None
  if tier == "thorough":
    extra = {"lean_lemmas": H.lean_lemmas()}
    if extra["lean_lemmas"].get("checked") is False and "returncode" in extra["lean_lemmas"]:
      print(f"ENGINE-ERROR property={PID}: lemmas/Spec.lean does not check: {extra['lean_lemmas']['output'][-300:]}")
      return 3
  return H.standard_main(PID, tier, tasks(tier), not_covered=NOT_COVERED, extra=extra,
                         structural=["symbolic size n >= 1 (incl. the 1x1 branch), p >= 1, padding None / symbolic, relative / absolute ridge, Newton / eigh"])
