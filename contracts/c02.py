"""C02 — Distributed Shampoo update equals the documented math (per-parameter kernel).

P1  the real `_transform_grad` closure against the spec function B.7 for every discrete
    configuration (7 graft types x nesterov x moving-average x {no, coupled, decoupled} weight decay x
    lr coupling x {constant, schedule} x skipped/not = 672), numeric hyper-parameters, dims and
    tensor entries symbolic; `preconditioned_grad` enters through its contract (opaque tensor of
    the gradient's shape); each norm is checked to range over the right tensor (second Skolem index).
P2  statistics weights and gram update of `_compute_stats` / `gram_weighted_update`.
P3  exponent (2 x #preconditioned axes or the override) — `_compute_preconditioners` plumbing.
P4  each dense preconditioner is applied along its own axis once, axes return in order
    (polynomial identity at small concrete sizes, entries symbolic; 3 preconditioner types).
S5  order of phases in update_fn (statistics -> roots from the new statistics -> transform with the new roots).
"""
from __future__ import annotations

import itertools

import z3

from contracts import ds_common as D
from pyvc import ctx as C
from pyvc import harness as H
from pyvc import spec
from pyvc import sym
from pyvc import tensor as T
from pyvc.harness import Task
from pyvc.sym import SBool, SInt, SReal

PID = "C02"
EPS0 = 1e-25

NOT_COVERED = [
    "agreement 'to floating-point tolerance' of the whole pipeline with a float64 reference (rounding)",
    "the inverse roots themselves (C01); quantisation error in the momenta (C11); clip_by_scaled_gradient_norm",
    "axis application (P4) is proved at small concrete sizes with symbolic entries, not for symbolic sizes",
]


def spec_tensors(S, cfg, step, pg, Ng):
  """B.7 as index -> value functions. Returns dict of callables idx -> scalar (before norms of a, d are known)."""
  normalized = cfg.graft.endswith("NORMALIZED")
  lr_t = S.lr_at(step)
  c = 1.0 if cfg.decoupled_lr else lr_t
  w2 = 1.0 if isinstance(S.beta2, float) and S.beta2 == 1.0 else 1.0 - S.beta2

  def gt(i):
    return S.g.at(i) / (Ng + EPS0) if normalized else S.g.at(i)

  def vnew(i):
    if cfg.graft.startswith("ADAGRAD"):
      return S.v.at(i) + gt(i) * gt(i)
    if cfg.graft.startswith("RMSPROP"):
      return S.beta2 * S.v.at(i) + w2 * (gt(i) * gt(i))
    return S.v.at(i)

  def a(i):
    if cfg.graft.startswith("ADAGRAD") or cfg.graft.startswith("RMSPROP"):
      r = gt(i) / (sym.ssqrt(vnew(i)) + S.eps)
    elif cfg.graft in ("SGD", "NONE"):
      r = S.g.at(i)
    else:
      gi = S.g.at(i)
      r = sym.ite(gi > 0, 1.0, sym.ite(gi < 0, -1.0, 0.0))
    return c * r

  def d(i):
    return a(i) if cfg.skip else pg.at(i)

  return dict(gt=gt, vnew=vnew, a=a, d=d, lr_t=lr_t)


def mk_transform(cfg, beta2_one=False):

  def t(ctx, it):
    S = D.Setup(ctx, it, cfg, beta2_one=beta2_one)
    state = S.param_state(n_stats=0 if cfg.skip else 2)
    pg = T.opaque("pg", S.dims)
    calls = []

    def pg_contract(interp, fn, args, kwargs):
      self_, grad, preconditioners = args
      calls.append((grad, preconditioners))
      return pg

    it.call_contracts["Preconditioner.preconditioned_grad"] = pg_contract
    step = spec.fresh_int("step", lo=0)
    n_red0 = len(ctx.ghost.setdefault('reduce_calls', []))
    upd, new_state = S.env["_transform_grad"](S.g, state, S.theta, T.asarray(step))
    tag = "_transform_grad"
    # --- which tensor each norm ranges over (second Skolem index y)
    norms = [r for r in ctx.ghost['reduce_calls'][n_red0:] if r.kind == "norm"]
    normalized = cfg.graft.endswith("NORMALIZED")
    want_n = 3 if normalized else 2
    ctx.require(f"{tag}.post.number-of-norms", len(norms) == want_n)
    y = D.skolem(ctx, S.dims, "y")
    Ng = norms[0].value(()) if normalized else None
    sp = spec_tensors(S, cfg, step, pg, Ng)
    if normalized:
      ctx.oblige(f"{tag}.norm0-ranges-over-the-gradient", norms[0].x.at(y) == S.g.at(y))
    n_a, n_d = norms[-2], norms[-1]
    ctx.oblige(f"{tag}.graft-norm-ranges-over-the-(lr-coupled)-graft-step", n_a.x.at(y) == sp["a"](y))
    ctx.oblige(f"{tag}.precond-norm-ranges-over-the-preconditioned-gradient", n_d.x.at(y) == sp["d"](y))
    Na, Nd = n_a.value(()), n_d.value(())
    if not cfg.skip:
      ctx.oblige(f"{tag}.preconditioned_grad-called-once-on-the-raw-gradient-with-the-state's-roots",
                 len(calls) == 1 and calls[0][0] is S.g and
                 all(p is q for p, q in zip(calls[0][1], S.pre)) and len(calls[0][1]) == len(S.pre))
    else:
      ctx.oblige(f"{tag}.skipped-parameter-is-not-preconditioned", len(calls) == 0)
    # --- value at Skolem x against B.7
    x = D.skolem(ctx, S.dims, "x")
    th, m0, md0 = S.theta.at(x), S.mom.at(x), S.dmom.at(x)
    # the graft step / preconditioned gradient at x: the code's own terms, which the three obligations
    # above (at the arbitrary index y, hence everywhere) identify with the spec tensors a and d
    ctx.oblige(f"{tag}.graft-step-at-x=spec", n_a.x.at(x) == sp["a"](x))
    ctx.oblige(f"{tag}.preconditioned-gradient-at-x=spec", n_d.x.at(x) == sp["d"](x))
    a, d = n_a.x.at(x), n_d.x.at(x)
    lr_t = sp["lr_t"]
    w = (1.0 - S.beta1) if cfg.moving_avg else 1.0
    u = d if cfg.graft == "NONE" else d * (Na / (Nd + EPS0))
    if cfg.wd_mode == "coupled":
      u = u + S.wd * th
      a = a + S.wd * th
    m_new = S.beta1 * m0 + w * u
    md_new = S.beta1 * md0 + w * a
    warm = step < S.start
    M = sym.ite(warm, md_new, m_new)
    U = sym.ite(warm, a, u)
    o = (w * U + S.beta1 * M) if cfg.nesterov else M
    if cfg.wd_mode == "decoupled":
      o = o + (1.0 if cfg.decoupled_lr else lr_t) * S.wd * th
    want = -(lr_t if cfg.decoupled_lr else 1.0) * o
    ctx.oblige(f"{tag}.post.update-has-the-parameter-shape",
               len(upd.shape) == len(S.dims) and all(sym.prove(p == q) for p, q in zip(upd.shape, S.dims)))
    ctx.oblige(f"{tag}.post.update=spec(B.7)", upd.at(x) == want, detail=cfg.name())
    ctx.oblige(f"{tag}.post.new-momentum=beta1*m+w*u", new_state.momentum.to_float().at(x) == m_new)
    ctx.oblige(f"{tag}.post.new-diagonal-momentum=beta1*md+w*a", new_state.diagonal_momentum.to_float().at(x) == md_new)
    ctx.oblige(f"{tag}.post.new-diagonal-statistics", new_state.diagonal_statistics.to_float().at(x) == sp["vnew"](x))
    ctx.oblige(f"{tag}.post.statistics/preconditioners/avg_grad/metrics-carried-over-unchanged",
               new_state.statistics is state.statistics and new_state.preconditioners is state.preconditioners and
               new_state.avg_grad is state.avg_grad and new_state.training_metrics is state.training_metrics)

  return t


# ---------------------------------------------------------------- P2 statistics
def mk_stats(beta2_one, rank, stat_steps_gt1):

  def t(ctx, it):
    cfg = D.Cfg("SGD", False, False, "none", True, False, False)
    sc = spec.fresh_int("statistics_compute_steps", lo=2) if stat_steps_gt1 else 1
    S = D.Setup(ctx, it, cfg, rank=rank, beta2_one=beta2_one, extra=dict(statistics_compute_steps=sc))
    state = S.param_state(n_stats=rank)
    step = spec.fresh_int("step", lo=0)
    new = S.env["_compute_stats"](S.g, state, S.theta, T.asarray(step))
    tag = "_compute_stats"
    ctx.require(f"{tag}.post.one-statistic-per-preconditioned-axis", len(new.statistics) == rank)
    w1 = S.beta2
    w2 = 1.0 if beta2_one else 1.0 - S.beta2
    refresh = True if not stat_steps_gt1 else (step % sc == 0)
    for k in range(rank):
      st = new.statistics[k]
      i = spec.fresh_int(f"i{k}")
      j = spec.fresh_int(f"j{k}")
      ctx.assume(sym.sand(i >= 0, i < S.dims[k], j >= 0, j < S.dims[k]))
      got = st.at((i, j))
      old = S.stats[k].at((i, j))
      con = None
      # the gram matrix contracts every axis but k of g with itself
      from pyvc import tensor as TT
      if stat_steps_gt1 and sym.prove(sym.snot(refresh)):
        ctx.oblige(f"{tag}.post.stat[k] bit-identical (same object) on a non-refresh step", st is S.stats[k])
        continue
      info = _find_gram(ctx, S.g, k, rank)
      ctx.require(f"{tag}.gram-update-contracts-all-axes-but-{k}-of-the-gradient-with-itself", info is not None)
      gram = info.at((i, j))
      want_new = w1 * old + w2 * gram
      if stat_steps_gt1:
        ctx.oblige(f"{tag}.post.stat[k]=w1*old+w2*G_k on refresh steps, bit-identical otherwise",
                   got == sym.ite(refresh, want_new, old))
      else:
        ctx.oblige(f"{tag}.post.stat[k]=w1*old+w2*G_k", got == want_new)
    ctx.oblige(f"{tag}.post.other-fields-carried-over",
               new.preconditioners is state.preconditioners and new.momentum is state.momentum and
               new.diagonal_momentum is state.diagonal_momentum and new.diagonal_statistics is state.diagonal_statistics)

  return t


def _find_gram(ctx, g, axis, rank):
  """The tensordot(g, g, axes=(others, others)) created by the code (axis provenance)."""
  others = [a for a in range(rank) if a != axis]
  for tns in ctx.ghost.get("tensordots", []):
    a, b, ax_a, ax_b = tns.tags["tensordot"]
    if list(ax_a) == others and list(ax_b) == others and a.ndim == rank and b.ndim == rank:
      y = D.skolem(ctx, g.shape, "yg")
      if sym.prove(sym.sand(a.at(y) == g.at(y), b.at(y) == g.at(y))):
        return tns
  return None


# ---------------------------------------------------------------- P4 axis application (dense)
def mk_apply(shape, ptype):

  def t(ctx, it):
    m = it.load_module(D.DS)
    g = T.opaque("g", shape)
    pre = m.Preconditioner(g, 0, 4096, False, m.PreconditionerType[ptype], 0)
    should = pre.should_precondition_dims()
    Ps = [T.opaque(f"P{a}", (shape[a], shape[a])) for a in range(len(shape)) if should[a]]
    out = pre.preconditioned_grad(g, Ps)
    ctx.require("Preconditioner.preconditioned_grad.post.shape", tuple(out.shape) == tuple(shape))
    mats = []
    k = 0
    for a in range(len(shape)):
      if should[a]:
        mats.append(Ps[k])
        k += 1
      else:
        mats.append(None)
    for oidx in itertools.product(*[range(d) for d in shape]):
      want = 0.0
      for iidx in itertools.product(*[range(d) for d in shape]):
        term = g.at(iidx)
        ok = True
        for a in range(len(shape)):
          if mats[a] is None:
            if iidx[a] != oidx[a]:
              ok = False
              break
          else:
            term = term * mats[a].at((iidx[a], oidx[a]))
        if ok:
          want = want + term
      ctx.oblige("Preconditioner._precondition_block.post.each-root-applied-along-its-own-axis-once-axes-in-order",
                 out.at(oidx) == want, detail=f"shape={shape} type={ptype} out index {oidx}")

  return t


# ---------------------------------------------------------------- S5 order of phases in update_fn
def t_phases(ctx, it):
  cfg = D.Cfg("SGD", False, False, "none", True, False, False)
  S = D.Setup(ctx, it, cfg)
  log = []
  env = S.env
  real_cs, real_cp, real_tg = env["_compute_stats"], env["_compute_preconditioners"], env["_transform_grad"]
  tok_stats, tok_roots = object(), object()

  def cs(grad, state, param, step):
    log.append(("stats", state, step))
    return ("S'", state)

  def cp(states, params, step):
    log.append(("roots", list(states), step))
    return [("R'", s) for s in states]

  def tg(grad, state, param, step):
    log.append(("transform", state, step))
    return T.zeros(param.shape), ("T'", state)

  env["_compute_stats"], env["_compute_preconditioners"], env["_transform_grad"] = cs, cp, tg
  p = {"a": T.opaque("pa", (3,)), "b": T.opaque("pb", (2, 2))}
  gr = {"a": T.opaque("ga", (3,)), "b": T.opaque("gb", (2, 2))}
  st0 = {"a": "sa", "b": "sb"}
  count = spec.fresh_int("count", lo=0)
  state = S.m.ShampooState(count=T.asarray(count), stats=st0)
  upd, new = S.opt.update(gr, state, p)
  kinds = [l[0] for l in log]
  ctx.oblige("update_fn.phases: statistics for every leaf, then roots once, then transform for every leaf",
             kinds == ["stats", "stats", "roots", "transform", "transform"])
  ctx.oblige("update_fn.roots-are-computed-from-the-NEW-statistics",
             log[2][1] == [("S'", "sa"), ("S'", "sb")])
  ctx.oblige("update_fn.transform-uses-the-NEW-roots", [l[1] for l in log[3:]] == [("R'", ("S'", "sa")), ("R'", ("S'", "sb"))])
  ctx.oblige("update_fn.every-phase-sees-the-incoming-count", all(l[2] is state.count for l in log))
  ctx.oblige("update_fn.post.count+1", new.count.item() == count + 1)
  ctx.oblige("update_fn.post.state-tree-mirrors-params",
             new.stats == {"a": ("T'", ("R'", ("S'", "sa"))), "b": ("T'", ("R'", ("S'", "sb")))})
  ctx.oblige("update_fn.post.update-tree-mirrors-params", sorted(upd.keys()) == ["a", "b"])


def mk_exponent(rank, ptype, override):
  """P3: the exponent handed to the root routine is 2 x #preconditioned axes (or the non-zero override)."""

  def t(ctx, it):
    m = it.load_module(D.DS)
    PT = m.PreconditionerType
    dims = tuple(spec.fresh_int(f"d{a}", lo=1) for a in range(rank))
    for d in dims:
      ctx.assume(d <= 4096)  # not skipped (skip_preconditioning_dim_size_gt default)
    pre = m.Preconditioner(T.opaque("p", dims), 0, 4096, False, PT[ptype], 0)
    should = pre.should_precondition_dims()
    n_axes = rank if (ptype == "ALL" or rank <= 1) else (rank - 1 if ptype == "INPUT" else 1)
    ctx.oblige("Preconditioner.should_precondition_dims.post.#preconditioned-axes", sum(1 for b in should if b) == n_axes,
               detail=f"rank={rank} type={ptype}")
    ctx.oblige("Preconditioner.exponent_for_preconditioner.post = 2 x #preconditioned axes (inverse 2k-th roots)",
               pre.exponent_for_preconditioner() == 2 * n_axes, detail=f"rank={rank} type={ptype}")
    # plumbing in _compute_preconditioners: the override replaces it iff non-zero
    ov = spec.fresh_int("exponent_override", lo=1) if override else 0
    opt = m.distributed_shampoo(0.1, block_size=0, best_effort_shape_interpretation=False, precondtioner_type=PT[ptype],
                                exponent_override=ov)
    env = opt.update.env.vars
    seen = {}

    def spy(states, step, statistics, num_statistics_per_state, original_shapes, exponents, max_size, prev):
      seen["exponents"] = list(exponents)
      seen["n"] = len(statistics)
      return states

    env["_pmap_compute_preconditioners"] = spy
    param = T.opaque("param", dims)
    st = opt.init({"w": param})
    stats_flat = [st.stats["w"]]
    env["_compute_preconditioners"](stats_flat, [param], T.asarray(spec.fresh_int("step", lo=0)))
    want = ov if override else 2 * n_axes
    ctx.oblige("_compute_preconditioners.post.one exponent per statistic = (override if non-zero else 2 x #preconditioned axes)",
               len(seen["exponents"]) == seen["n"] and seen["n"] == n_axes and all(sym.prove(e == want) for e in seen["exponents"]),
               detail=f"rank={rank} type={ptype} override={override} seen={seen}")

  return t


def mk_exponent_companion(rank_a, rank_b):
  """Two parameters of different rank: every statistic gets the exponent of ITS OWN parameter (2 x #preconditioned axes of
  that parameter), whatever the other parameter is and in whatever order they come."""

  def t(ctx, it):
    m = it.load_module(D.DS)
    PT = m.PreconditionerType
    opt = m.distributed_shampoo(0.1, block_size=0, best_effort_shape_interpretation=False, precondtioner_type=PT.ALL)
    env = opt.update.env.vars
    seen = {}

    def spy(states, step, statistics, num_statistics_per_state, original_shapes, exponents, max_size, prev):
      seen["exponents"] = list(exponents)
      seen["per_state"] = list(num_statistics_per_state)
      return states

    env["_pmap_compute_preconditioners"] = spy
    pa = T.opaque("pa", tuple(spec.fresh_int(f"a{k}", lo=1, hi=4096) for k in range(rank_a)))
    pb = T.opaque("pb", tuple(spec.fresh_int(f"b{k}", lo=1, hi=4096) for k in range(rank_b)))
    st = opt.init({"a": pa, "b": pb})
    env["_compute_preconditioners"]([st.stats["a"], st.stats["b"]], [pa, pb], T.asarray(spec.fresh_int("step", lo=0)))
    want = [2 * rank_a] * rank_a + [2 * rank_b] * rank_b
    got = seen.get("exponents", [])
    ctx.oblige("_compute_preconditioners.post.every statistic gets the exponent of its own parameter (independent of the companions)",
               len(got) == len(want) and all(sym.prove(g == w) for g, w in zip(got, want)), detail=f"ranks {rank_a},{rank_b}: {got}")

  return t


def mk_skip(rank, best_effort):
  """Which parameters are preconditioned at all (documentation of skip_preconditioning_rank_lt / _dim_size_gt): decided
  on the parameter's OWN shape - rank below the threshold, or some dimension above the size threshold."""

  def t(ctx, it):
    m = it.load_module(D.DS)
    dims = tuple(spec.fresh_int(f"d{a}", lo=1) for a in range(rank))
    rank_lt = spec.fresh_int("skip_preconditioning_rank_lt", lo=0)
    dim_gt = spec.fresh_int("skip_preconditioning_dim_size_gt", lo=1)
    opt = m.distributed_shampoo(0.1, block_size=spec.fresh_int("block_size", lo=1), best_effort_shape_interpretation=best_effort,
                                skip_preconditioning_rank_lt=rank_lt, skip_preconditioning_dim_size_gt=dim_gt)
    skip = opt.update.env.vars["_skip_preconditioning"]
    got = skip(T.opaque("param", dims))
    want = sym.sor(rank < rank_lt, *[d > dim_gt for d in dims]) if dims else (rank < rank_lt)
    got_b = got if isinstance(got, (bool, sym.Sym)) else bool(got)
    ctx.oblige("_skip_preconditioning.post: skipped iff rank(param) < skip_preconditioning_rank_lt or some dimension of the "
               "parameter's own shape > skip_preconditioning_dim_size_gt", sym.sand(sym.implies(got_b, want), sym.implies(want, got_b)),
               detail=f"rank={rank} best_effort_shape_interpretation={best_effort}")

  return t


def tasks(tier):
  ts = []
  # "... inverse roots ... as preconditioners": the preconditioners in use at a step are those of the LATEST refresh, and the
  # refresh happens on every multiple of the interval, warm-up included (shared with C04)
  from contracts import c04
  ts.append(Task("preconditioners are refreshed on every multiple of the interval[symbolic]", c04.mk_precond_cadence("sym")))
  ts.append(Task("preconditioners are refreshed on every multiple of the interval[interval 1]", c04.mk_precond_cadence("one")))
  for ra, rb in ((1, 2), (2, 1), (2, 3), (3, 1)):
    ts.append(Task(f"exponent with a companion parameter[ranks {ra},{rb}]", mk_exponent_companion(ra, rb)))
  for r in (0, 1, 2, 3):
    for be in (True, False):
      ts.append(Task(f"skip decision[rank={r},best_effort={be}]", mk_skip(r, be)))
  for r in (1, 2, 3, 4):
    for pt in ("ALL", "INPUT", "OUTPUT"):
      for ov in (False, True):
        ts.append(Task(f"exponent[rank={r},{pt},override={ov}]", mk_exponent(r, pt, ov)))
  cfgs = list(D.all_cfgs())
  for cfg in cfgs:
    ts.append(Task(f"_transform_grad[{cfg.name()}]", mk_transform(cfg)))
  # beta2 == 1 (AdaGrad-like accumulation, w2 = 1): the RMSProp graft accumulator is nu' = nu + g^2 (seed C05-g)
  seen_b1 = set()
  for cfg in cfgs:
    if cfg.graft.startswith("RMSPROP") and cfg.graft not in seen_b1:
      seen_b1.add(cfg.graft)
      ts.append(Task(f"_transform_grad[{cfg.name()},beta2=1]", mk_transform(cfg, beta2_one=True)))
  for b1 in (False, True):
    for r in (1, 2, 3):
      for gt1 in (False, True):
        ts.append(Task(f"_compute_stats[beta2=1:{b1},rank={r},steps>1:{gt1}]", mk_stats(b1, r, gt1)))
  shapes = [(2,), (2, 3), (3, 2), (2, 2, 2)] if tier == "quick" else [(2,), (3,), (2, 3), (3, 2), (2, 2, 2), (2, 3, 2), (2, 2, 2, 2)]
  for sh in shapes:
    for pt in ("ALL", "INPUT", "OUTPUT"):
      ts.append(Task(f"dense application[shape={sh},{pt}]", mk_apply(sh, pt)))
  ts.append(Task("update_fn phases", t_phases))
  return ts


def main(tier):
  return H.standard_main(PID, tier, tasks(tier), not_covered=NOT_COVERED,
                         structural=["672 discrete configurations of _transform_grad (rank-2 parameter, symbolic dims)",
                                     "_compute_stats: beta2 {=1,<1} x rank 1..3 x statistics interval {1, symbolic>1}",
                                     "dense axis application: small concrete shapes x 3 preconditioner types, entries symbolic"])
