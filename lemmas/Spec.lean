/-
Elementary lemmas cited by the contracts (evidence files name them `Lean Spec.<name>`).
Checked with the pre-installed Lean 4 + Mathlib (narrow imports):  lean lemmas/Spec.lean
-/
import Mathlib.Algebra.BigOperators.Group.List.Basic
import Mathlib.Algebra.Order.Ring.Nat
import Mathlib.Tactic.Ring
import Mathlib.Tactic.Linarith
import Mathlib.Analysis.SpecialFunctions.Pow.Real

namespace Spec

/-- merge_small_dims: a shape consisting of ones has element count one. -/
theorem prod_eq_one_of_all_one (l : List ℕ) (h : ∀ x ∈ l, x = 1) : l.prod = 1 :=
  List.prod_eq_one h

/-- BlockPartitioner: `q` blocks of size `b` sum to `q * b`. -/
theorem sum_replicate (q b : ℕ) : (List.replicate q b).sum = q * b := by
  simp [List.sum_replicate]

/-- reshape: a mixed-radix index is below the product of the radices. -/
theorem radix_bound (i j D d : ℕ) (hi : i < D) (hj : j < d) : i * d + j < D * d := by
  have h1 : (i + 1) * d ≤ D * d := Nat.mul_le_mul_right d hi
  have h2 : i * d + j < (i + 1) * d := by
    rw [Nat.add_mul, Nat.one_mul]; exact Nat.add_lt_add_left hj _
  exact lt_of_lt_of_le h2 h1

/-- range(0, n*s, s): consecutive chunk ends stay below the end. -/
theorem mul_le_mul_right (k n s : ℕ) (h : k + 1 ≤ n) : (k + 1) * s ≤ n * s :=
  Nat.mul_le_mul_right s h

/-- division theorem used for Skolem indices on blocked axes. -/
theorem div_mod_decomposition (i q B : ℕ) (hB : 0 < B) (hi : i < q * B) :
    ∃ l j, i = l * B + j ∧ l < q ∧ j < B := by
  refine ⟨i / B, i % B, ?_, ?_, Nat.mod_lt _ hB⟩
  · rw [Nat.mul_comm]; exact (Nat.div_add_mod i B).symm
  · exact (Nat.div_lt_iff_lt_mul hB).mpr hi

/-- ghost Sum of a finite map: appending a value adds it. -/
theorem sum_append (l : List ℤ) (v : ℤ) : (l ++ [v]).sum = l.sum + v := by
  simp [List.sum_append]

/-- ghost Sum of a finite map: overwriting position `j` replaces the old value by the new one. -/
theorem sum_set (l : List ℤ) (j : ℕ) (v : ℤ) (hj : j < l.length) :
    (l.set j v).sum = l.sum - l[j] + v := by
  induction l generalizing j with
  | nil => simp at hj
  | cons a t ih =>
    cases j with
    | zero => simp; ring
    | succ k =>
      have hk : k < t.length := by simpa using hj
      simp [List.set, ih k hk]; ring

/-- mat_power (square-and-multiply): the three identities of the spec power `ipow` used by the loop invariant
    `power * ipow mat i = ipow m p`, in any commutative monoid (1x1 real matrices are scalars). -/
theorem ipow_zero {M : Type*} [CommMonoid M] (x : M) : x ^ 0 = 1 := pow_zero x

theorem ipow_even {M : Type*} [CommMonoid M] (x : M) (k : ℕ) : x ^ (2 * k) = (x * x) ^ k := by
  rw [pow_mul, pow_two]

theorem ipow_odd {M : Type*} [CommMonoid M] (x : M) (k : ℕ) : x ^ (2 * k + 1) = x * (x * x) ^ k := by
  rw [pow_succ, pow_mul, pow_two, mul_comm]

/-- coupled Newton iteration on commuting tokens: (mat_h * mat_m_i)^p = mat_h^p * mat_m_i^p. -/
theorem ipow_mul {M : Type*} [CommMonoid M] (x y : M) (p : ℕ) : (x * y) ^ p = x ^ p * y ^ p := mul_pow x y p

/-- the seed of mat_h: (z^(1/p))^p = z for z >= 0. -/
theorem root_pow (z : ℝ) (hz : 0 ≤ z) (p : ℕ) (hp : p ≠ 0) : (z ^ ((p : ℝ)⁻¹)) ^ p = z :=
  Real.rpow_inv_natCast_pow hz hp

/-- constant map: the ghost Sum of `n` copies of `v` (dict comprehension over a symbolic group). -/
theorem sum_replicate_int (n : ℕ) (v : ℤ) : (List.replicate n v).sum = n * v := by
  simp [List.sum_replicate]

end Spec
